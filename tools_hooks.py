#!/usr/bin/env python3
# records the /repo commits that add the guarded (build tag verif) files in MANIFEST.hooks.source_commits
import json, subprocess
m = json.load(open('/verif/MANIFEST.json'))
out = subprocess.run(['git', '-C', '/repo', 'log', '--format=%H', '--grep=^verif:'], capture_output=True, text=True).stdout.split()
m['hooks']['source_commits'] = list(reversed(out))
m['hooks']['enable'] = "hopvc loads /repo with -tags verif; the guarded files are comment-only contract files <pkg>/zz_contracts_verif.go (//@ lines read by hopvc) and tubes/zz_hooks_verif.go (four harness functions composing an encoder with its decoder). go build -tags verif ./... compiles them."
json.dump(m, open('/verif/MANIFEST.json', 'w'), indent=1)
print(len(out), "hook commits recorded")
