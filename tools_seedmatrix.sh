#!/bin/bash
# usage: tools_seedmatrix.sh  — runs every seeded change against the check of its property (and prints one line each)
cd /verif
claimed=$(python3 -c "import json;print(' '.join(c['property_id'] for c in json.load(open('MANIFEST.json'))['checks']))")
for d in seeded/*/; do
  k=$(basename $d); p=${k%-*}
  patch=$d/patch.diff
  [ -f $d/patch_adapted_to_fixed_tree.diff ] && patch=$d/patch_adapted_to_fixed_tree.diff
  if ! echo " $claimed " | grep -q " $p "; then echo "$k  property-not-claimed"; continue; fi
  out=$(./tools_mutant.sh $p $patch 2>&1)
  if echo "$out" | grep -q PATCH-DOES-NOT-APPLY; then echo "$k  PATCH-DOES-NOT-APPLY"; continue; fi
  n=$(echo "$out" | grep -c "^VIOLATION")
  first=$(echo "$out" | grep "^VIOLATION" | head -1 | sed 's/.*obligation=\([^ ]*\).*/\1/')
  echo "$k  violations=$n  first=$first"
done
