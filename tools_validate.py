#!/usr/bin/env python3
# validates MANIFEST.json and evidence/*.json against the schemas (python3-vt has jsonschema)
import json, sys, glob
import jsonschema
m = json.load(open('/verif/MANIFEST.json'))
jsonschema.validate(m, json.load(open('/root/.vp/MANIFEST.schema.json')))
props = [json.loads(l)['id'] for l in open('/verif/properties.jsonl')]
claimed = {c['property_id'] for c in m['checks']}
na = {c['property_id'] for c in m.get('not_applicable', [])}
assert claimed | na == set(props), (set(props) - claimed - na)
assert not (claimed & na)
es = json.load(open('/root/.vp/EVIDENCE.schema.json'))
for f in glob.glob('/verif/evidence/*.json'):
    jsonschema.validate(json.load(open(f)), es)
print("manifest ok; claimed:", sorted(claimed))
