package cyclist

import (
	"bytes"
	"testing"
)

// Demonstration for finding C13-inplace: before the fix, Encrypt(buf, buf) (operands are the same buffer)
// wrote all-zero "ciphertext" and absorbed it, so the encrypting and the decrypting duplex fell out of sync.
// Run: cp this file into /repo/cyclist and `go test -run TestInPlaceCryptDemo ./cyclist`.
func TestInPlaceCryptDemo(t *testing.T) {
	key := bytes.Repeat([]byte{7}, 16)
	msg := []byte("the quick brown fox jumps over the lazy dog")

	var ref, inplace Cyclist
	ref.InitializeEmpty()
	ref.Initialize(key, nil, nil)
	inplace.InitializeEmpty()
	inplace.Initialize(key, nil, nil)

	want := make([]byte, len(msg))
	ref.Encrypt(want, msg)

	buf := append([]byte{}, msg...)
	inplace.Encrypt(buf, buf)
	if !bytes.Equal(buf, want) {
		t.Fatalf("in-place Encrypt differs from out-of-place Encrypt:\n got  %x\n want %x", buf, want)
	}
	a, b := make([]byte, 16), make([]byte, 16)
	ref.Squeeze(a)
	inplace.Squeeze(b)
	if !bytes.Equal(a, b) {
		t.Fatalf("tags differ after in-place Encrypt")
	}
}
