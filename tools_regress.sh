#!/bin/bash
# runs every claimed check (quick tier) and prints one line each; exit 1 if any fails
cd /verif
rc=0
for p in $(python3 -c "import json;print(' '.join(c['property_id'] for c in json.load(open('MANIFEST.json'))['checks']))") "$@"; do
  out=$(HOPVC_OUT=/tmp/hopvc-regress ./bin/hopvc check $p 2>&1); r=$?
  echo "$out" | tail -1
  if [ $r -ne 0 ]; then rc=1; echo "$out" | grep -E "VIOLATION|KNOWN" | cut -c1-220; fi
done
rm -rf /tmp/hopvc-regress
exit $rc
