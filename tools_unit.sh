#!/bin/bash
# engine unit tests on a tiny module: positive cases must be fully discharged, must-fail cases must be refuted
cd /verif
rc=0
run() { HOPVC_REPO=/verif/selftest/unit ./bin/hopvc func ./p "$1" 2>&1; }
for f in p.F p.G p.P p.Sess.Check p.S2.C p.AddG; do
  out=$(run $f)
  if echo "$out" | grep -q "^FAIL\|OUT OF SUBSET" ; then
    # p.S2.C has one intentionally undecidable return (errX may be nil)
    if [ "$f" = "p.S2.C" ] && [ $(echo "$out" | grep -c "^FAIL") -le 1 ]; then echo "ok   $f (1 expected undecided)"; continue; fi
    echo "UNIT-FAIL $f"; echo "$out" | grep "^FAIL\|SUBSET" | cut -c1-160; rc=1
  else echo "ok   $f"; fi
done
for f in p.BadAppend p.BadIndex p.BadLoop; do
  out=$(run $f)
  if echo "$out" | grep -q "^FAIL.* sat "; then echo "ok   $f refuted"; else echo "UNIT-FAIL $f not refuted"; rc=1; fi
done
for f in p.SetB p.SetPA p.SetViaCallee; do
  out=$(run $f)
  if echo "$out" | grep -q "^FAIL frame:"; then echo "ok   $f frame violation reported"; else echo "UNIT-FAIL $f frame violation missed"; rc=1; fi
done
exit $rc
