#!/bin/bash
# usage: tools_mutant.sh <Cxx> <patch.diff> [tier]  — runs a check against a scratch copy of /repo with the patch applied
P=$1; PATCH=$(readlink -f $2); TIER=${3:-quick}
S=$(mktemp -d /tmp/hopvc-mut.XXXXXX)
(cd /repo && git ls-files -co --exclude-standard | rsync -a --files-from=- . $S/repo/)
if ! (cd $S/repo && git apply --unsafe-paths $PATCH 2>/dev/null || patch -p1 -s < $PATCH); then echo "PATCH-DOES-NOT-APPLY"; rm -rf $S; exit 2; fi
(cd $S/repo && GOFLAGS=-mod=mod GOPROXY=off go build ./... 2>&1 | head -5)
cd /verif && HOPVC_REPO=$S/repo HOPVC_OUT=$S/out ./bin/hopvc check $P --tier $TIER
RC=$?
rm -rf $S
exit $RC
