#!/bin/bash
# usage: tools_verify_seed.sh <Cxx> <k>  — confirms a seeded change (patch + demo) in a scratch worktree of /repo HEAD
# and files it under /verif/seeded/<Cxx>-<k>/ when confirmed.
set -u
P=$1; K=$2
SRC=/tmp/seed-$P-out/$K
OUT=/tmp/vseed-results; mkdir -p $OUT
RES=$OUT/$P-$K.txt
WT=/tmp/vseed-$P-$K
export GOFLAGS=-mod=mod GOPROXY=off
[ -f $SRC/patch.diff ] || { echo "missing patch" > $RES; exit 1; }
DIR=$(python3 -c "import json;print(json.load(open('$SRC/meta.json'))['demo_pkg_dir'])")
git -C /repo worktree remove --force $WT 2>/dev/null
BASE=HEAD
git -C /repo worktree add -q --detach $WT HEAD
if ! git -C $WT apply --check $SRC/patch.diff 2>/dev/null; then
  git -C /repo worktree remove --force $WT
  git -C /repo worktree add -q --detach $WT e61f26d
  BASE=e61f26d
  if ! git -C $WT apply --check $SRC/patch.diff 2>/dev/null; then echo "patch does not apply" > $RES; git -C /repo worktree remove --force $WT; exit 1; fi
fi
run() { unshare -n sh -c "ip link set lo up; cd $WT && $*"; }
{
echo "base=$BASE"
cp $SRC/demo_test.go $WT/$DIR/zz_seed_demo_test.go
run "go test -vet=off -count=1 -timeout 5m -run TestSeedDemo ./$DIR" > $OUT/$P-$K.clean.log 2>&1; echo "demo_clean_exit=$?"
git -C $WT apply $SRC/patch.diff
run "go build ./..." > $OUT/$P-$K.build.log 2>&1; echo "build_exit=$?"
run "go test -vet=off -count=1 -timeout 5m -run TestSeedDemo ./$DIR" > $OUT/$P-$K.mut.log 2>&1; echo "demo_mutant_exit=$?"
rm $WT/$DIR/zz_seed_demo_test.go
run "go test -vet=off -count=1 -timeout 20m ./..." > $OUT/$P-$K.suite.log 2>&1; echo "suite_mutant_exit=$?"
} > $RES 2>&1
git -C /repo worktree remove --force $WT
if grep -q "demo_clean_exit=0" $RES && grep -q "build_exit=0" $RES && grep -q "suite_mutant_exit=0" $RES && ! grep -q "demo_mutant_exit=0" $RES; then
  D=/verif/seeded/$P-$K; mkdir -p $D
  cp $SRC/patch.diff $D/patch.diff; cp $SRC/demo_test.go $D/demo_test.go
  python3 - <<PY
import json
m=json.load(open('$SRC/meta.json'))
m['base_commit']='$BASE'
m['confirmed']={'demo_on_clean_tree':'pass','build_with_change':'ok','demo_with_change':'FAIL (as required)','full_suite_with_change':'pass','how':'tools_verify_seed.sh in a scratch worktree, tests run in an isolated network namespace'}
json.dump(m,open('$D/meta.json','w'),indent=1)
PY
  echo "CONFIRMED" >> $RES
else
  echo "REJECTED" >> $RES
fi
