package main

// Symbolic executor over go/ssa (NaiveForm): one pass over the loop-cut CFG
// in topological order with ite-merging at joins.

import (
	"fmt"
	"go/ast"
	"go/constant"
	"go/token"
	"go/types"
	"math/big"
	"os"
	"sort"
	"strings"

	"golang.org/x/tools/go/ssa"
)

type Obligation struct {
	Name   string
	Kind   string
	Pos    string
	Desc   string
	Assume []*Term // snapshot of assumptions (prefix)
	PC     *Term
	Goal   *Term
	Cover  bool // a cover query: expects SAT (reachability), not UNSAT
	Values []namedTerm
	// results
	Status  string
	Backend string
	Ms      int64
	Output  string
	Bounded bool
	Alts    []*Term           // alternative (stronger) goals: the obligation holds if any of them is proved
	Splits  []*Term           // case split: if the plain query is undecided, the obligation holds if it is proved under E and under !E
	GVKeys  map[string]string // solver-reported symbol -> input name
}

type namedTerm struct {
	Name string
	T    *Term
}

type frame struct {
	fn       *ssa.Function
	regs     map[ssa.Value]Val
	edgePC   map[[2]int]*Term
	prefix   string // obligation-name prefix
	contract *FuncContract
	entry    *State // state at function entry (for old())
	params   map[string]Val
	depth    int
	loops    []*loopInfo
	results  []retInfo
	order    []*ssa.BasicBlock
	cvars    map[string]CVal
	entryPC  *Term
}

type retInfo struct {
	st   *State
	vals []Val
	pos  token.Pos
}

type FnExec struct {
	eng              *Engine
	c                *Ctx
	assumes          []*Term
	obls             []*Obligation
	counters         map[string]int
	notes            map[string]bool // unchecked assumptions met while executing
	dropped          map[string]bool // constructs abstracted
	famSort          map[string]*Sort
	freshRefs        []*Term
	nilable          map[*Term]bool
	condDefers       bool
	opts             ExecOpts
	inputs           []namedTerm // symbolic inputs of interest for models
	callSeq          int
	private          map[*Term]privInfo
	closures         map[*Term]*ssa.MakeClosure
	deferArgs        map[*ssa.Defer][]Val
	deferFn          map[*ssa.Defer]Val
	usedContracts    map[string]*FuncContract
	inlined          map[string]bool
	strDecl          map[string]bool
	specDone         map[string]bool
	bounded          []string
	unannotatedLoops int
	mapWrites        []mapWrite
	epoch            int
	pureMode         bool
	subSeen          map[*Term]bool
	symSeen          map[string]bool
	rangeMaps        map[*Term]rangeMap
	atomicLocks      bool
	epochSerial      map[int]int // allocation serial at the time each heap epoch began
	famAxiom         map[string]bool
	streqCache       map[[6]int]*Term
	noAssume         bool // suppress assumption generation (while describing inputs for models)
	pendingAxiom     map[string]pendingFam
	noOpenInv        bool // do not instantiate representation invariants for values read under quantifiers
	rngs             []rngRec
	alenSeen         map[*Term]bool
	pendingFresh     []*Term
	capTypes         map[string]CVal
	arrOrigins       map[*Term]arrOrigin
	rngDepth         int
	rngBudget        int
	followAliases    bool    // contract flag `followaliases`: byte strings are also followed through partial updates of an object that MAY be the one read (costly; off by default)
	splits           []*Term // contract `split` conditions of the function under verification (entry state)
	curPC            *Term   // path condition of the state being executed (for side queries)
	sideCache        map[[2]int]bool
	sideMemo         map[*Term]bool
	sideQueries      int
	rngSeen          map[*Term]bool
}

type rangeMap struct {
	mt *types.Map
	m  *Term
}

type ExecOpts struct {
	NilChecks   bool // generate nil-dereference obligations for every pointer
	AllocBound  int64
	SafetyOnly  bool
	NoSafety    bool
	InlineDepth int
}

func (fx *FnExec) assumeGlobal(t *Term) {
	if t.IsTrue() || fx.noAssume {
		return
	}
	if t.open {
		// a fact about a term that mentions quantifier variables (e.g. the representation
		// invariant of vhosts[k].Pattern): close it universally
		fb := freeBoundVars(t)
		if len(fb) > 0 {
			t = fx.c.Forall(fb, t)
		}
	}
	fx.assumes = append(fx.assumes, t)
}

func (fx *FnExec) assume(st *State, t *Term) {
	fx.assumeGlobal(fx.c.Implies(st.pc, t))
}

func (fx *FnExec) note(s string) { fx.notes[s] = true }
func (fx *FnExec) drop(s string) { fx.dropped[s] = true }

func (fx *FnExec) posOf(fr *frame, p token.Pos) string {
	if !p.IsValid() {
		return ""
	}
	pp := fx.eng.prog.Fset.Position(p)
	return fmt.Sprintf("%s:%d", strings.TrimPrefix(pp.Filename, "/repo/"), pp.Line)
}

// oblige records a proof obligation "pc => goal" and then assumes it.
func (fx *FnExec) oblige(fr *frame, st *State, kind string, pos token.Pos, goal *Term, desc string) {
	if fx.opts.NoSafety && isSafetyKind(kind) {
		st.pc = fx.c.And(st.pc, goal)
		return
	}
	key := fr.prefix + "/" + kind
	fx.counters[key]++
	name := fmt.Sprintf("%s/%d", key, fx.counters[key])
	o := &Obligation{Name: name, Kind: kind, Pos: fx.posOf(fr, pos), Desc: desc, PC: st.pc, Goal: goal,
		Assume: fx.assumes[:len(fx.assumes):len(fx.assumes)], Values: fx.inputs}
	fx.obls = append(fx.obls, o)
	st.pc = fx.c.And(st.pc, goal)
}

func isSafetyKind(k string) bool {
	switch k {
	case "frame":
		return false
	case "index", "slice", "nil", "make", "div", "shift", "panic", "assert", "convert", "alloc", "closed":
		return true
	}
	return false
}

// ---- CFG analysis

type loopInfo struct {
	head      *ssa.BasicBlock
	ordinal   int // 1-based, source order
	body      map[*ssa.BasicBlock]bool
	node      ast.Node // *ast.ForStmt or *ast.RangeStmt
	modAlloc  map[*ssa.Alloc]bool
	modFam    map[string]bool     // heap family prefixes stored to ("*" = everything)
	modObj    map[*ssa.Alloc]bool // object allocs (declared outside the loop) written in the loop
	modGhost  map[string]bool
	modTrace  map[string]bool // traced callees called inside the loop
	calls     bool
	headState *State
	variant   CVal
	backEdges int
}

func isBackEdge(from, to *ssa.BasicBlock) bool { return to.Dominates(from) }

func findLoops(fn *ssa.Function) []*loopInfo {
	var loops []*loopInfo
	byHead := map[*ssa.BasicBlock]*loopInfo{}
	for _, b := range fn.Blocks {
		for _, s := range b.Succs {
			if isBackEdge(b, s) {
				li := byHead[s]
				if li == nil {
					li = &loopInfo{head: s, body: map[*ssa.BasicBlock]bool{s: true}}
					byHead[s] = li
					loops = append(loops, li)
				}
				// natural loop: nodes reaching b without passing through s
				var stack []*ssa.BasicBlock
				if !li.body[b] {
					li.body[b] = true
					stack = append(stack, b)
				}
				for len(stack) > 0 {
					x := stack[len(stack)-1]
					stack = stack[:len(stack)-1]
					for _, p := range x.Preds {
						if !li.body[p] {
							li.body[p] = true
							stack = append(stack, p)
						}
					}
				}
			}
		}
	}
	sort.Slice(loops, func(i, j int) bool { return loops[i].head.Index < loops[j].head.Index })
	// map to AST loops in source order
	var nodes []ast.Node
	if syn := fn.Syntax(); syn != nil {
		ast.Inspect(syn, func(n ast.Node) bool {
			switch n.(type) {
			case *ast.FuncLit:
				if n != syn {
					return false
				}
			case *ast.ForStmt, *ast.RangeStmt:
				nodes = append(nodes, n)
			}
			return true
		})
	}
	// order loops by source position of their head block's first positioned instruction when available
	if len(nodes) == len(loops) {
		for i, l := range loops {
			l.node = nodes[i]
		}
	}
	for i, l := range loops {
		l.ordinal = i + 1
	}
	return loops
}

func topoOrder(fn *ssa.Function) []*ssa.BasicBlock {
	visited := map[*ssa.BasicBlock]bool{}
	var post []*ssa.BasicBlock
	var dfs func(b *ssa.BasicBlock)
	dfs = func(b *ssa.BasicBlock) {
		visited[b] = true
		for _, s := range b.Succs {
			if !visited[s] && !isBackEdge(b, s) {
				dfs(s)
			}
		}
		post = append(post, b)
	}
	if len(fn.Blocks) > 0 {
		dfs(fn.Blocks[0])
	}
	for i, j := 0, len(post)-1; i < j; i, j = i+1, j-1 {
		post[i], post[j] = post[j], post[i]
	}
	return post
}

// rootAlloc traces an address back to the Alloc it is derived from, if any.
func rootAlloc(v ssa.Value) *ssa.Alloc {
	for depth := 0; depth < 32; depth++ {
		switch x := v.(type) {
		case *ssa.Alloc:
			return x
		case *ssa.FieldAddr:
			v = x.X
		case *ssa.IndexAddr:
			if _, ok := x.X.Type().Underlying().(*types.Pointer); ok {
				v = x.X
			} else {
				return nil
			}
		default:
			return nil
		}
	}
	return nil
}

func (fx *FnExec) analyseLoop(fr *frame, li *loopInfo) {
	li.modAlloc = map[*ssa.Alloc]bool{}
	li.modFam = map[string]bool{}
	li.modObj = map[*ssa.Alloc]bool{}
	li.modGhost = map[string]bool{}
	inLoop := func(a *ssa.Alloc) bool { return li.body[a.Block()] }
	// addrEffect records the effect of a write through addr
	addrEffect := func(addr ssa.Value) {
		if a, ok := addr.(*ssa.Alloc); ok && fx.isLocalCell(a) {
			li.modAlloc[a] = true
			return
		}
		if root := rootAlloc(addr); root != nil && fx.isLocalCell(root) {
			li.modAlloc[root] = true
			return
		}
		if root := rootAlloc(addr); root != nil && !fx.isLocalCell(root) {
			if inLoop(root) {
				if !allocEscapes(root) {
					return // object private to one iteration: invisible at the loop head
				}
			} else {
				li.modObj[root] = true
				return
			}
		}
		fx.storeFamilies(addr, li.modFam)
	}
	for b := range li.body {
		for _, ins := range b.Instrs {
			switch x := ins.(type) {
			case *ssa.Store:
				addrEffect(x.Addr)
			case *ssa.Alloc:
				if fx.isLocalCell(x) {
					li.modAlloc[x] = true
				} else if allocEscapes(x) {
					t := x.Type().(*types.Pointer).Elem()
					fx.typeFamilies(t, li.modFam)
				}
			case *ssa.MapUpdate:
				li.modFam["MD|"+mapTypeKey(x.Map.Type())] = true
				li.modFam["MV|"+mapTypeKey(x.Map.Type())+"|"] = true
			case *ssa.Call:
				fx.callEffects(fr, x.Common(), li, addrEffect)
				// call-trace ghosts of traced callees change in the loop
				cc := x.Common()
				k := ""
				if cc.IsInvoke() {
					k = ifaceMethodKey(cc.Value.Type(), cc.Method.Name())
				} else if callee := cc.StaticCallee(); callee != nil {
					k = funcKey(callee)
				} else {
					k = globalFuncKey(cc)
					if k == "" {
						k = fieldFuncKey(cc)
					}
				}
				if k != "" && fx.eng.traced[k] {
					if li.modTrace == nil {
						li.modTrace = map[string]bool{}
					}
					li.modTrace[k] = true
				}
			case *ssa.Defer:
				li.modFam["*"] = true
			case *ssa.Go:
			case *ssa.Send, *ssa.Select:
				li.modFam["*"] = true
			case *ssa.UnOp:
				if x.Op == token.ARROW {
					li.modFam["*"] = true
				}
			case *ssa.RunDefers:
				li.modFam["*"] = true
			}
		}
	}
}

// allocEscapes: the address of an object Alloc (or of a part of it) is used other than for
// loads, stores into it, and address arithmetic.
func allocEscapes(a *ssa.Alloc) bool {
	seen := map[ssa.Value]bool{}
	var esc func(v ssa.Value) bool
	esc = func(v ssa.Value) bool {
		if seen[v] {
			return false
		}
		seen[v] = true
		refs := v.Referrers()
		if refs == nil {
			return true
		}
		for _, r := range *refs {
			switch x := r.(type) {
			case *ssa.DebugRef:
			case *ssa.Store:
				if x.Val == v {
					return true
				}
			case *ssa.UnOp:
				if x.Op != token.MUL {
					return true
				}
			case *ssa.FieldAddr:
				if esc(x) {
					return true
				}
			case *ssa.IndexAddr:
				if x.X == v && esc(x) {
					return true
				}
			case *ssa.MakeClosure:
				// captured by a closure that only reads it (loads, field/element reads)
				if v != ssa.Value(a) || !readOnlyObjCapture(x, a) {
					return true
				}
			default:
				return true
			}
		}
		return false
	}
	return esc(a)
}

// readOnlyObjCapture: like readOnlyCapture for a struct/array variable: inside the closure the captured
// address is only loaded from, directly or through field / element addresses.
func readOnlyObjCapture(mc *ssa.MakeClosure, a *ssa.Alloc) bool {
	fn, ok := mc.Fn.(*ssa.Function)
	if !ok {
		return false
	}
	var readOnly func(v ssa.Value, depth int) bool
	readOnly = func(v ssa.Value, depth int) bool {
		refs := v.Referrers()
		if refs == nil || depth > 6 {
			return false
		}
		for _, r := range *refs {
			switch x := r.(type) {
			case *ssa.DebugRef:
			case *ssa.UnOp:
				if x.Op != token.MUL {
					return false
				}
			case *ssa.FieldAddr:
				if !readOnly(x, depth+1) {
					return false
				}
			case *ssa.IndexAddr:
				if x.X != v || !readOnly(x, depth+1) {
					return false
				}
			default:
				return false
			}
		}
		return true
	}
	for i, b := range mc.Bindings {
		if b != a {
			continue
		}
		if i >= len(fn.FreeVars) || !readOnly(fn.FreeVars[i], 0) {
			return false
		}
	}
	return true
}

// storeFamilies records which heap families a store through addr may change.
func (fx *FnExec) storeFamilies(addr ssa.Value, out map[string]bool) {
	switch x := addr.(type) {
	case *ssa.FieldAddr:
		pt := x.X.Type().Underlying().(*types.Pointer).Elem()
		st := under(pt).(*types.Struct)
		ft := st.Field(x.Field).Type()
		if isObjT(ft) {
			fx.typeFamilies(ft, out)
		} else {
			out["F|"+typeKey(pt)+"|"+st.Field(x.Field).Name()+"|"] = true
		}
	case *ssa.IndexAddr:
		var et types.Type
		switch u := x.X.Type().Underlying().(type) {
		case *types.Pointer:
			et = u.Elem().Underlying().(*types.Array).Elem()
		case *types.Slice:
			et = u.Elem()
		}
		if isElemObj(et) {
			fx.typeFamilies(et, out)
		} else {
			out["M|"+typeKey(et)+"|"] = true
		}
	case *ssa.Global:
		out[globalKey(x)] = true
	default:
		t := addr.Type().Underlying().(*types.Pointer).Elem()
		if isObjT(t) {
			fx.typeFamilies(t, out)
		} else {
			out["B|"+typeKey(t)+"|"] = true
		}
	}
}

// typeFamilies adds every family an object of type t occupies.
func (fx *FnExec) typeFamilies(t types.Type, out map[string]bool) {
	switch u := under(t).(type) {
	case *types.Struct:
		for i := 0; i < u.NumFields(); i++ {
			ft := u.Field(i).Type()
			if isObjT(ft) {
				fx.typeFamilies(ft, out)
			} else {
				out["F|"+typeKey(t)+"|"+u.Field(i).Name()+"|"] = true
			}
		}
	case *types.Array:
		if isElemObj(u.Elem()) {
			fx.typeFamilies(u.Elem(), out)
		} else {
			out["M|"+typeKey(u.Elem())+"|"] = true
		}
	}
}

// isLocalCell: a non-object Alloc whose address is only loaded from / stored to.
func (fx *FnExec) isLocalCell(a *ssa.Alloc) bool {
	fx.eng.mu.Lock()
	v, ok := fx.eng.cellCache[a]
	fx.eng.mu.Unlock()
	if ok {
		return v
	}
	t := a.Type().(*types.Pointer).Elem()
	res := true
	if isObjT(t) {
		// a struct/array whose address never escapes is kept as a value ("scalar replacement")
		res = valueRepresentable(t) && !allocEscapes(a) && !os_noLocalObj
	} else if refs := a.Referrers(); refs != nil {
		for _, r := range *refs {
			switch x := r.(type) {
			case *ssa.Store:
				if x.Addr != a {
					res = false
				}
			case *ssa.UnOp:
				if x.Op != token.MUL {
					res = false
				}
			case *ssa.DebugRef:
			case *ssa.MakeClosure:
				if !readOnlyCapture(x, a) {
					res = false
				}
			default:
				res = false
			}
		}
	}
	fx.eng.mu.Lock()
	fx.eng.cellCache[a] = res
	fx.eng.mu.Unlock()
	return res
}

// val evaluates an SSA operand.
func (fx *FnExec) val(fr *frame, v ssa.Value) Val {
	switch x := v.(type) {
	case *ssa.Const:
		return fx.constVal(x)
	case *ssa.Global:
		return PtrV{Kind: PGlobal, Global: x, Elem: x.Type().(*types.Pointer).Elem()}
	case *ssa.Function:
		return fx.c.Const("func|"+x.String(), RefSort)
	case *ssa.Builtin:
		return fx.c.Const("builtin|"+x.Name(), RefSort)
	}
	if r, ok := fr.regs[v]; ok {
		return r
	}
	if fv, ok := v.(*ssa.FreeVar); ok {
		// captured variable of a closure verified on its own: unconstrained pointer
		pv := fx.freshVal(fv.Type(), "free."+fv.Name())
		fr.regs[v] = pv
		return pv
	}
	fx.oos("use of undefined SSA value %s (%T) in %s", v.Name(), v, fr.fn)
	return nil
}

func (fx *FnExec) constVal(k *ssa.Const) Val {
	c := fx.c
	t := k.Type()
	if k.Value == nil {
		if tp, ok := t.(*types.TypeParam); ok {
			_ = tp
			return IfaceV{c.BVInt(0, 32), fx.nilRef()}
		}
		if bt, ok := under(t).(*types.Basic); ok && bt.Kind() == types.UntypedNil {
			return fx.nilRef()
		}
		return fx.zeroVal(t)
	}
	if isBoolT(t) {
		return c.Bool(constant.BoolVal(k.Value))
	}
	if isStringT(t) {
		return fx.strConst(constant.StringVal(k.Value))
	}
	if isFloat(t) {
		f, _ := constant.Float64Val(k.Value)
		return c.App(fmt.Sprintf("float|%v", f), BV(64))
	}
	if w, _, ok := intWidth(t); ok {
		iv := constant.ToInt(k.Value)
		bi, ok2 := new(big.Int).SetString(iv.ExactString(), 10)
		if !ok2 {
			fx.oos("constant %s", k)
		}
		return c.BVConst(bi, w)
	}
	fx.oos("constant of type %s", t)
	return nil
}

func (fx *FnExec) strConst(s string) StrV {
	c := fx.c
	name := fmt.Sprintf("str|%q", s)
	if len(name) > 80 {
		name = fmt.Sprintf("str|%q…%d", s[:40], fx.eng.strID(s))
	}
	arr := c.Const(name, byteArr)
	if len(s) <= 64 {
		if !fx.eng.strDeclared(fx, name) {
			for i := 0; i < len(s); i++ {
				fx.assumeGlobal(c.Eq(c.Select(arr, fx.bv64(int64(i))), c.BVInt(int64(s[i]), 8)))
			}
		}
	}
	return StrV{arr, fx.bv64(0), fx.bv64(int64(len(s)))}
}

// toIndex widens an index/length operand to 64 bits according to its Go type.
func (fx *FnExec) toIndex(v ssa.Value, t *Term) *Term {
	w, signed, _ := intWidth(v.Type())
	if w == 64 {
		return t
	}
	if signed {
		return fx.c.SignExt(t, 64)
	}
	return fx.c.ZeroExt(t, 64)
}

func (fx *FnExec) execInstr(fr *frame, st *State, instr ssa.Instruction) {
	c := fx.c
	switch x := instr.(type) {
	case *ssa.DebugRef:
		return
	case *ssa.Alloc:
		t := x.Type().(*types.Pointer).Elem()
		if fx.isLocalCell(x) {
			st.locals[x] = fx.zeroVal(t)
			if isObjT(t) {
				fr.regs[x] = PtrV{Kind: PLocalPath, Alloc: x, Elem: t}
			} else {
				fr.regs[x] = PtrV{Kind: PLocal, Alloc: x, Elem: t}
			}
			return
		}
		r := fx.newRef(x.Comment)
		if isObjT(t) {
			fx.initZeroObj(st, t, r)
			fr.regs[x] = PtrV{Kind: PObj, Ref: r, Elem: t}
			fx.private[r] = privInfo{t: t}
		} else {
			fx.storeBox(st, t, r, fx.zeroVal(t))
			fr.regs[x] = PtrV{Kind: PBox, Ref: r, Elem: t}
			fx.private[r] = privInfo{t: t, box: true}
		}
	case *ssa.Store:
		p := fx.ptrOf(fr, st, x.Addr, x.Pos())
		fx.derefCheck(fr, st, p, x.Pos())
		v := fx.val(fr, x.Val)
		if p.Kind != PLocal && p.Kind != PLocalPath {
			fx.escape(fr, st, v)
			if p.Kind == PGlobal {
				fx.frameWrite(fr, st, nil, x.Pos(), "write a global variable")
			} else {
				fx.frameWrite(fr, st, p.Ref, x.Pos(), "write to memory that existed before the call")
			}
		}
		fx.store(st, p, fx.coerce(v, p.Elem))
	case *ssa.UnOp:
		fr.regs[x] = fx.unop(fr, st, x)
	case *ssa.BinOp:
		fr.regs[x] = fx.binop(fr, st, x)
	case *ssa.FieldAddr:
		p := fx.ptrOf(fr, st, x.X, x.Pos())
		fx.derefCheck(fr, st, p, x.Pos())
		fr.regs[x] = fx.fieldAddr(p, x.Field)
	case *ssa.Field:
		sv, ok := fx.val(fr, x.X).(StructV)
		if !ok {
			fx.oos("Field of non-struct value")
		}
		fr.regs[x] = sv.F[x.Field]
	case *ssa.IndexAddr:
		fr.regs[x] = fx.indexAddr(fr, st, x)
	case *ssa.Index:
		fr.regs[x] = fx.index(fr, st, x)
	case *ssa.Lookup:
		fr.regs[x] = fx.lookup(fr, st, x)
	case *ssa.Slice:
		fr.regs[x] = fx.slice(fr, st, x)
	case *ssa.MakeSlice:
		fr.regs[x] = fx.makeSlice(fr, st, x)
	case *ssa.MakeMap:
		r := fx.newRef("map")
		fr.regs[x] = r
		if mt, ok := x.Type().Underlying().(*types.Map); ok && fx.mapModelled(mt) {
			dk, dom := fx.mapDom(st, mt)
			fx.setFamily(st, dk, c.Store(dom, r, c.ConstArr(ArrSort(mapKeySort(mt.Key()), BoolSort), c.False())))
		}
	case *ssa.MakeChan:
		fr.regs[x] = fx.newRef("chan")
		fx.drop("channel creation (channel contents not modelled)")
	case *ssa.MakeClosure:
		for _, b := range x.Bindings {
			bv := fx.val(fr, b)
			fx.escape(fr, st, bv)
			if p, ok := bv.(PtrV); ok && p.Kind == PLocal {
				// read-only capture of a local cell: what the cell refers to is reachable from the closure
				fx.escape(fr, st, fx.load(st, p))
			}
		}
		fr.regs[x] = fx.c.Fresh("closure|"+x.Fn.Name(), RefSort)
		fx.closures[fr.regs[x].(*Term)] = x
	case *ssa.MakeInterface:
		fr.regs[x] = fx.makeInterface(fr, st, x.X.Type(), fx.val(fr, x.X))
	case *ssa.ChangeType:
		fr.regs[x] = fx.coerce(fx.val(fr, x.X), x.Type())
	case *ssa.ChangeInterface:
		fr.regs[x] = fx.val(fr, x.X)
	case *ssa.Convert:
		fr.regs[x] = fx.convert(fr, st, x)
	case *ssa.SliceToArrayPointer:
		s := fx.val(fr, x.X).(SliceV)
		at := x.Type().(*types.Pointer).Elem()
		n := under(at).(*types.Array).Len()
		fx.oblige(fr, st, "convert", x.Pos(), c.BVCmp("bvsge", s.Len, fx.bv64(n)), fmt.Sprintf("slice-to-array conversion needs len >= %d", n))
		fr.regs[x] = PtrV{Kind: PView, Ref: s.Ref, Idx: s.Off, Elem: at}
	case *ssa.TypeAssert:
		fr.regs[x] = fx.typeAssert(fr, st, x)
	case *ssa.Extract:
		tv, ok := fx.val(fr, x.Tuple).(TupleV)
		if !ok {
			fx.oos("Extract from non-tuple")
		}
		fr.regs[x] = tv[x.Index]
	case *ssa.Phi:
		var res Val
		b := x.Block()
		for i := len(x.Edges) - 1; i >= 0; i-- {
			pred := b.Preds[i]
			pcnd, ok := fr.edgePC[[2]int{pred.Index, b.Index}]
			if !ok || pcnd.IsFalse() {
				continue
			}
			ev, have := fr.regs[x.Edges[i]]
			if _, isC := x.Edges[i].(*ssa.Const); isC {
				ev, have = fx.constVal(x.Edges[i].(*ssa.Const)), true
			}
			if !have {
				continue
			}
			ev = fx.coerce(ev, x.Type())
			if res == nil {
				res = ev
			} else {
				res = fx.mergeVal(pcnd, ev, res)
			}
		}
		if res == nil {
			res = fx.freshVal(x.Type(), "phi")
		}
		fr.regs[x] = res
	case *ssa.Call:
		fr.regs[x] = fx.call(fr, st, x, x.Common())
	case *ssa.Go:
		// arguments escape; the spawned body is verified separately if contracted
		for _, a := range x.Call.Args {
			fx.escape(fr, st, fx.val(fr, a))
		}
		if !x.Call.IsInvoke() {
			fx.escape(fr, st, fx.val(fr, x.Call.Value))
		}
		fx.spawnRequires(fr, st, x)
		fx.drop("go statement (spawned body not part of this frame)")
	case *ssa.Defer:
		st.defers = append(st.defers, x)
		// evaluate arguments now
		for _, a := range x.Call.Args {
			fx.deferArgs[x] = append(fx.deferArgs[x], fx.val(fr, a))
		}
		if !x.Call.IsInvoke() {
			if _, ok := x.Call.Value.(*ssa.Function); !ok {
				if _, ok := x.Call.Value.(*ssa.Builtin); !ok {
					fx.deferFn[x] = fx.val(fr, x.Call.Value)
				}
			}
		} else {
			fx.deferFn[x] = fx.val(fr, x.Call.Value)
		}
	case *ssa.RunDefers:
		for i := len(st.defers) - 1; i >= 0; i-- {
			d := st.defers[i]
			fx.callDeferred(fr, st, d)
		}
		st.defers = nil
	case *ssa.MapUpdate:
		m := fx.val(fr, x.Map).(*Term)
		fx.oblige(fr, st, "nil", x.Pos(), c.Not(c.Eq(m, fx.nilRef())), "assignment to entry in nil map")
		fx.mapUpdate(fr, st, x, m)
	case *ssa.Range:
		it := fx.c.Fresh("iter", RefSort)
		fr.regs[x] = it
		if mt, ok := x.X.Type().Underlying().(*types.Map); ok {
			if m, ok := fx.val(fr, x.X).(*Term); ok {
				fx.rangeMaps[it] = rangeMap{mt, m}
			}
		}
	case *ssa.Next:
		tt := x.Type().(*types.Tuple)
		tv := TupleV{c.Fresh("next.ok", BoolSort)}
		for i := 1; i < tt.Len(); i++ {
			et := tt.At(i).Type()
			if bt, ok := et.(*types.Basic); ok && bt.Kind() == types.Invalid {
				tv = append(tv, c.False())
				continue
			}
			v := fx.freshVal(et, "next")
			fx.markNilable(v)
			tv = append(tv, v)
		}
		if it, ok := fx.val(fr, x.Iter).(*Term); ok {
			if rm, ok := fx.rangeMaps[it]; ok && fx.mapModelled(rm.mt) && len(tv) == 3 {
				// a delivered (key, value) pair is an entry of the map
				func() {
					defer func() {
						if e := recover(); e != nil {
							if _, ok := e.(oosError); !ok {
								panic(e)
							}
						}
					}()
					k := fx.mapKeyTerm(st, rm.mt.Key(), tv[1])
					ok, v := fx.mapRead(st, rm.mt, rm.m, k)
					fx.assumeGlobal(c.Implies(tv[0].(*Term), ok))
					lv, lw := fx.toLeaves(rm.mt.Elem(), v), fx.toLeaves(rm.mt.Elem(), tv[2])
					for i := range lv {
						fx.assumeGlobal(c.Implies(tv[0].(*Term), c.Eq(lv[i], lw[i])))
					}
				}()
			}
		}
		fr.regs[x] = tv
		fx.drop("range over map/string (iteration order unconstrained; termination of the range not modelled)")
	case *ssa.Send:
		fx.escape(fr, st, fx.val(fr, x.X))
		fx.drop("channel send (no blocking semantics)")
	case *ssa.Select:
		fr.regs[x] = fx.selectInstr(fr, st, x)
	default:
		fx.oos("unsupported instruction %T: %s", instr, instr)
	}
}

func (fx *FnExec) initZeroObj(st *State, t types.Type, r *Term) {
	switch u := under(t).(type) {
	case *types.Array:
		if isElemObj(u.Elem()) {
			n := u.Len()
			if n <= 64 {
				for k := int64(0); k < n; k++ {
					fx.initZeroObj(st, u.Elem(), fx.elemRef(u.Elem(), r, fx.bv64(k)))
				}
			}
			return
		}
		fx.zeroBacking(st, u.Elem(), r)
		return
	case *types.Struct:
		for i := 0; i < u.NumFields(); i++ {
			ft := u.Field(i).Type()
			if isObjT(ft) {
				fx.initZeroObj(st, ft, fx.subRef(t, i, r))
			} else {
				fx.storeField(st, t, i, r, fx.zeroVal(ft))
			}
		}
		return
	}
	fx.storeObj(st, t, r, fx.zeroObjVal(t))
}

func (fx *FnExec) zeroObjVal(t types.Type) Val {
	switch u := under(t).(type) {
	case *types.Array:
		if s := singleSort(t); s != nil {
			return fx.zeroVal(t)
		}
		_ = u
	}
	return fx.zeroVal(t)
}

// coerce adapts pointer shapes when the static type says so (e.g. nil consts).
func (fx *FnExec) coerce(v Val, t types.Type) Val {
	if t == nil {
		return v
	}
	switch u := under(t).(type) {
	case *types.Pointer:
		if tm, ok := v.(*Term); ok && tm.Sort == RefSort {
			return fx.ptrFromRef(u.Elem(), tm)
		}
	case *types.Slice:
		if tm, ok := v.(*Term); ok && tm == fx.nilRef() {
			return fx.zeroVal(t)
		}
	case *types.Interface:
		if tm, ok := v.(*Term); ok && tm == fx.nilRef() {
			return fx.zeroVal(t)
		}
	case *types.Map, *types.Chan, *types.Signature:
		if p, ok := v.(PtrV); ok {
			return fx.ptrRef(p)
		}
	}
	return v
}

// ptrOf evaluates an address operand to a pointer value.
func (fx *FnExec) ptrOf(fr *frame, st *State, v ssa.Value, pos token.Pos) PtrV {
	pv := fx.coerce(fx.val(fr, v), v.Type())
	p, ok := pv.(PtrV)
	if !ok {
		fx.oos("address operand %s is not a pointer value (%T)", v.Name(), pv)
	}
	return p
}

// derefCheck emits / assumes the nil check for a dereference of p.
func (fx *FnExec) derefCheck(fr *frame, st *State, p PtrV, pos token.Pos) {
	if p.Ref == nil || p.Kind == PLocal || p.Kind == PGlobal || p.Kind == PLocalPath {
		return
	}
	if p.Kind == PField || p.Kind == PElem || p.Kind == PView || p.Kind == PElemIn {
		return // checked when the address was formed
	}
	c := fx.c
	nn := c.Not(c.Eq(p.Ref, fx.nilRef()))
	if nn.IsTrue() || fx.knownNonNil(p.Ref) {
		return
	}
	if fx.opts.NilChecks || fx.isNilable(p.Ref) {
		fx.oblige(fr, st, "nil", pos, nn, "nil pointer dereference")
	} else {
		st.pc = c.And(st.pc, nn)
		fx.note("pointers taken from parameters and heap fields are assumed non-nil where dereferenced")
	}
}

func (fx *FnExec) knownNonNil(r *Term) bool {
	if r.Op == "const" && strings.HasPrefix(r.Name, "new!") {
		return true
	}
	if r.Op == "app" && (strings.HasPrefix(r.Name, "sub|") || strings.HasPrefix(r.Name, "elem|")) {
		return true
	}
	if r.Op == "const" && strings.HasPrefix(r.Name, "G|") {
		return true
	}
	return false
}

func (fx *FnExec) isNilable(r *Term) bool {
	if fx.nilable[r] {
		return true
	}
	if r.Op == "ite" {
		return fx.isNilable(r.Args[1]) || fx.isNilable(r.Args[2])
	}
	if r == fx.nilRef() {
		return true
	}
	return false
}

func (fx *FnExec) markNilable(v Val) {
	switch x := v.(type) {
	case PtrV:
		if x.Ref != nil {
			fx.nilable[x.Ref] = true
		}
	case TupleV:
		for _, e := range x {
			fx.markNilable(e)
		}
	}
}

func (fx *FnExec) fieldAddr(p PtrV, field int) PtrV {
	if p.Kind == PLocalPath {
		s, ok := under(p.Elem).(*types.Struct)
		if !ok || p.Idx != nil {
			fx.oos("FieldAddr on local non-struct")
		}
		return PtrV{Kind: PLocalPath, Alloc: p.Alloc, Path: append(append([]int{}, p.Path...), field), Elem: s.Field(field).Type()}
	}
	if p.Kind != PObj && p.Kind != PView {
		fx.oos("FieldAddr on pointer kind %d", p.Kind)
	}
	s, ok := under(p.Elem).(*types.Struct)
	if !ok {
		fx.oos("FieldAddr on non-struct %s", p.Elem)
	}
	ft := s.Field(field).Type()
	if isObjT(ft) {
		return PtrV{Kind: PObj, Ref: fx.subRef(p.Elem, field, p.Ref), Elem: ft}
	}
	return PtrV{Kind: PField, Ref: p.Ref, StructT: p.Elem, Field: field, Elem: ft}
}

func (fx *FnExec) elemPtr(et types.Type, ref, abs *Term) PtrV {
	if isElemObj(et) {
		return PtrV{Kind: PObj, Ref: fx.elemRef(et, ref, abs), Elem: et}
	}
	return PtrV{Kind: PElem, Ref: ref, Idx: abs, Elem: et}
}

func (fx *FnExec) indexAddr(fr *frame, st *State, x *ssa.IndexAddr) PtrV {
	c := fx.c
	idx := fx.toIndex(x.Index, fx.val(fr, x.Index).(*Term))
	switch u := x.X.Type().Underlying().(type) {
	case *types.Pointer:
		p := fx.ptrOf(fr, st, x.X, x.Pos())
		fx.derefCheck(fr, st, p, x.Pos())
		at := under(u.Elem()).(*types.Array)
		n := fx.bv64(at.Len())
		fx.boundsCheck(fr, st, x.Pos(), idx, n, x.Index)
		if p.Kind == PLocalPath {
			return PtrV{Kind: PLocalPath, Alloc: p.Alloc, Path: p.Path, Idx: idx, Elem: at.Elem()}
		}
		if p.Kind == PElem {
			// pointer to an array-valued element of a slice
			return PtrV{Kind: PElemIn, Ref: p.Ref, Idx: p.Idx, Idx2: idx, Elem: at.Elem(), Outer: p.Elem}
		}
		base := fx.bv64(0)
		if p.Kind == PView {
			base = p.Idx
		} else if p.Kind != PObj {
			fx.oos("IndexAddr through pointer kind %d", p.Kind)
		}
		return fx.elemPtr(at.Elem(), p.Ref, c.BVBin("bvadd", base, idx))
	case *types.Slice:
		s := fx.val(fr, x.X).(SliceV)
		fx.boundsCheck(fr, st, x.Pos(), idx, s.Len, x.Index)
		return fx.elemPtr(u.Elem(), s.Ref, c.BVBin("bvadd", s.Off, idx))
	}
	fx.oos("IndexAddr on %s", x.X.Type())
	return PtrV{}
}

func (fx *FnExec) boundsCheck(fr *frame, st *State, pos token.Pos, idx, n *Term, idxv ssa.Value) {
	c := fx.c
	// 0 <= idx < n in signed form (n >= 0 is an invariant); the signed form matches the program's own
	// signed length arithmetic and is markedly easier for the solvers than the unsigned trick
	g := c.And(c.BVCmp("bvsle", fx.bv64(0), idx), c.BVCmp("bvslt", idx, n))
	fx.oblige(fr, st, "index", pos, g, "index in range")
}

func (fx *FnExec) index(fr *frame, st *State, x *ssa.Index) Val {
	idx := fx.toIndex(x.Index, fx.val(fr, x.Index).(*Term))
	switch u := x.X.Type().Underlying().(type) {
	case *types.Array:
		arr := fx.val(fr, x.X).(*Term)
		fx.boundsCheck(fr, st, x.Pos(), idx, fx.bv64(u.Len()), x.Index)
		return fx.c.Select(arr, idx)
	case *types.Basic: // string
		s := fx.val(fr, x.X).(StrV)
		fx.boundsCheck(fr, st, x.Pos(), idx, s.Len, x.Index)
		return fx.c.Select(s.Arr, fx.c.BVBin("bvadd", s.Off, idx))
	}
	fx.oos("Index on %s", x.X.Type())
	return nil
}

func (fx *FnExec) lookup(fr *frame, st *State, x *ssa.Lookup) Val {
	if isStringT(x.X.Type()) {
		s := fx.val(fr, x.X).(StrV)
		idx := fx.toIndex(x.Index, fx.val(fr, x.Index).(*Term))
		fx.boundsCheck(fr, st, x.Pos(), idx, s.Len, x.Index)
		return fx.c.Select(s.Arr, fx.c.BVBin("bvadd", s.Off, idx))
	}
	return fx.mapLookup(fr, st, x)
}

func (fx *FnExec) slice(fr *frame, st *State, x *ssa.Slice) Val {
	c := fx.c
	var base SliceV
	var isStr bool
	var sv StrV
	var limit *Term // upper limit for high (cap, or len for strings/arrays)
	switch u := x.X.Type().Underlying().(type) {
	case *types.Slice:
		base = fx.val(fr, x.X).(SliceV)
		limit = base.Cap
	case *types.Basic:
		sv = fx.val(fr, x.X).(StrV)
		isStr = true
		limit = sv.Len
	case *types.Pointer:
		p := fx.ptrOf(fr, st, x.X, x.Pos())
		fx.derefCheck(fr, st, p, x.Pos())
		n := fx.bv64(under(u.Elem()).(*types.Array).Len())
		off := fx.bv64(0)
		if p.Kind == PView {
			off = p.Idx
		} else if p.Kind != PObj {
			fx.oos("slice of pointer kind %d", p.Kind)
		}
		base = SliceV{p.Ref, off, n, n}
		limit = n
	default:
		fx.oos("Slice on %s", x.X.Type())
	}
	lo := fx.bv64(0)
	if x.Low != nil {
		lo = fx.toIndex(x.Low, fx.val(fr, x.Low).(*Term))
	}
	var hi *Term
	if x.High != nil {
		hi = fx.toIndex(x.High, fx.val(fr, x.High).(*Term))
	} else if isStr {
		hi = sv.Len
	} else {
		hi = base.Len
	}
	var mx *Term
	if x.Max != nil {
		mx = fx.toIndex(x.Max, fx.val(fr, x.Max).(*Term))
	}
	// 0 <= lo <= hi <= (max <=) limit
	var g *Term
	z := fx.bv64(0)
	if mx != nil {
		g = c.And(c.BVCmp("bvsle", z, lo), c.BVCmp("bvsle", lo, hi), c.BVCmp("bvsle", hi, mx), c.BVCmp("bvsle", mx, limit))
	} else {
		g = c.And(c.BVCmp("bvsle", z, lo), c.BVCmp("bvsle", lo, hi), c.BVCmp("bvsle", hi, limit))
	}
	fx.oblige(fr, st, "slice", x.Pos(), g, "slice bounds in range")
	if isStr {
		return StrV{sv.Arr, c.BVBin("bvadd", sv.Off, lo), c.BVBin("bvsub", hi, lo)}
	}
	ncap := c.BVBin("bvsub", base.Cap, lo)
	if mx != nil {
		ncap = c.BVBin("bvsub", mx, lo)
	}
	return SliceV{base.Ref, c.BVBin("bvadd", base.Off, lo), c.BVBin("bvsub", hi, lo), ncap}
}

const maxAllocBytes = int64(1) << 47

func (fx *FnExec) makeSlice(fr *frame, st *State, x *ssa.MakeSlice) Val {
	c := fx.c
	ln := fx.toIndex(x.Len, fx.val(fr, x.Len).(*Term))
	cp := fx.toIndex(x.Cap, fx.val(fr, x.Cap).(*Term))
	et := under(x.Type()).(*types.Slice).Elem()
	g := c.And(c.BVCmp("bvsle", fx.bv64(0), ln), c.BVCmp("bvsle", ln, cp), c.BVCmp("bvsle", cp, fx.bv64(maxAllocBytes)))
	fx.oblige(fr, st, "make", x.Pos(), g, "make: 0 <= len <= cap <= 2^47")
	if fx.opts.AllocBound > 0 {
		fx.oblige(fr, st, "alloc", x.Pos(), c.BVCmp("bvsle", cp, fx.bv64(fx.opts.AllocBound)), fmt.Sprintf("allocation bounded by %d elements", fx.opts.AllocBound))
	}
	r := fx.newRef("make")
	fx.assumeGlobal(c.Eq(c.App("alen", BV(64), r), cp))
	fx.zeroBacking(st, et, r)
	fx.private[r] = privInfo{t: et, backing: true}
	return SliceV{r, fx.bv64(0), ln, cp}
}

func (fx *FnExec) zeroBacking(st *State, et types.Type, r *Term) {
	if isElemObj(et) {
		return // element sub-objects: contents left unconstrained (sound over-approximation)
	}
	if isArrayT(et) {
		// elements are arrays of scalars stored by value: all-zero arrays
		es := singleSort(et)
		inner := under(et).(*types.Array).Elem()
		z := fx.c.ConstArr(es, fx.zeroVal(inner).(*Term))
		key := elemFamKey(et, "")
		fam := fx.family(st, key, ArrSort(RefSort, ArrSort(BV(64), es)))
		fx.setFamily(st, key, fx.c.Store(fam, r, fx.c.ConstArr(ArrSort(BV(64), es), z)))
		return
	}
	for _, lf := range leavesOf(et) {
		key := elemFamKey(et, lf.name)
		fam := fx.family(st, key, ArrSort(RefSort, ArrSort(BV(64), lf.sort)))
		var z *Term
		switch lf.sort {
		case RefSort:
			z = fx.nilRef()
		case BoolSort:
			z = fx.c.False()
		default:
			if lf.sort.IsBV() {
				z = fx.c.BVInt(0, lf.sort.Width)
			}
		}
		if z == nil {
			continue
		}
		fx.setFamily(st, key, fx.c.Store(fam, r, fx.c.ConstArr(ArrSort(BV(64), lf.sort), z)))
	}
}

func (fx *FnExec) unop(fr *frame, st *State, x *ssa.UnOp) Val {
	c := fx.c
	switch x.Op {
	case token.MUL:
		p := fx.ptrOf(fr, st, x.X, x.Pos())
		fx.derefCheck(fr, st, p, x.Pos())
		v := fx.load(st, p)
		return v
	case token.NOT:
		return c.Not(fx.val(fr, x.X).(*Term))
	case token.SUB:
		if isFloat(x.Type()) {
			return c.Fresh("float", BV(64))
		}
		return c.BVNeg(fx.val(fr, x.X).(*Term))
	case token.XOR:
		return c.BVNot(fx.val(fr, x.X).(*Term))
	case token.ARROW:
		fx.drop("channel receive (value unconstrained, no blocking semantics)")
		et := x.X.Type().Underlying().(*types.Chan).Elem()
		v := fx.freshVal(et, "recv")
		fx.markNilable(v)
		if x.CommaOk {
			return TupleV{v, c.Fresh("recv.ok", BoolSort)}
		}
		return v
	}
	fx.oos("unary operator %s", x.Op)
	return nil
}

func (fx *FnExec) binop(fr *frame, st *State, x *ssa.BinOp) Val {
	c := fx.c
	a := fx.val(fr, x.X)
	b := fx.val(fr, x.Y)
	t := x.X.Type()
	switch x.Op {
	case token.EQL:
		return fx.valEq(st, t, fx.coerce(a, t), fx.coerce(b, x.X.Type()), x.Y.Type())
	case token.NEQ:
		return c.Not(fx.valEq(st, t, fx.coerce(a, t), fx.coerce(b, x.X.Type()), x.Y.Type()))
	}
	if isStringT(t) {
		switch x.Op {
		case token.ADD:
			sa, sb := a.(StrV), b.(StrV)
			r := StrV{c.Fresh("concat.arr", byteArr), fx.bv64(0), c.BVBin("bvadd", sa.Len, sb.Len)}
			fx.assumeStrInv(r)
			k := c.BoundVar("k", BV(64))
			fx.assumeGlobal(c.Forall([]*Term{k}, c.Implies(c.BVCmp("bvult", k, sa.Len), c.Eq(c.Select(r.Arr, k), c.Select(sa.Arr, c.BVBin("bvadd", sa.Off, k))))))
			k2 := c.BoundVar("k", BV(64))
			fx.assumeGlobal(c.Forall([]*Term{k2}, c.Implies(c.BVCmp("bvult", k2, sb.Len), c.Eq(c.Select(r.Arr, c.BVBin("bvadd", sa.Len, k2)), c.Select(sb.Arr, c.BVBin("bvadd", sb.Off, k2))))))
			return r
		default:
			fx.drop("string ordering comparison (result unconstrained)")
			return c.Fresh("strcmp", BoolSort)
		}
	}
	if isFloat(t) {
		fx.drop("floating-point arithmetic (results unconstrained)")
		switch x.Op {
		case token.LSS, token.LEQ, token.GTR, token.GEQ:
			return c.Fresh("fcmp", BoolSort)
		}
		return c.Fresh("float", BV(64))
	}
	if isBoolT(t) {
		ta, tb := a.(*Term), b.(*Term)
		switch x.Op {
		case token.AND, token.LAND:
			return c.And(ta, tb)
		case token.OR, token.LOR:
			return c.Or(ta, tb)
		}
	}
	w, signed, ok := intWidth(t)
	if !ok {
		fx.oos("binary operator %s on %s", x.Op, t)
	}
	ta, tb := a.(*Term), b.(*Term)
	switch x.Op {
	case token.ADD:
		return c.BVBin("bvadd", ta, tb)
	case token.SUB:
		return c.BVBin("bvsub", ta, tb)
	case token.MUL:
		return c.BVBin("bvmul", ta, tb)
	case token.AND:
		return c.BVBin("bvand", ta, tb)
	case token.OR:
		return c.BVBin("bvor", ta, tb)
	case token.XOR:
		return c.BVBin("bvxor", ta, tb)
	case token.AND_NOT:
		return c.BVBin("bvand", ta, c.BVNot(tb))
	case token.QUO, token.REM:
		fx.oblige(fr, st, "div", x.Pos(), c.Not(c.Eq(tb, c.BVInt(0, w))), "division by zero")
		op := map[token.Token]string{token.QUO: "bvudiv", token.REM: "bvurem"}[x.Op]
		if signed {
			op = map[token.Token]string{token.QUO: "bvsdiv", token.REM: "bvsrem"}[x.Op]
		}
		return c.BVBin(op, ta, tb)
	case token.SHL, token.SHR:
		// shift count has its own type
		cw, csigned, _ := intWidth(x.Y.Type())
		cnt := tb
		if csigned {
			fx.oblige(fr, st, "shift", x.Pos(), c.BVCmp("bvsge", cnt, c.BVInt(0, cw)), "negative shift count")
		}
		return fx.shift(x.Op == token.SHL, signed, ta, cnt, w, cw)
	case token.LSS, token.LEQ, token.GTR, token.GEQ:
		p := "bvu"
		if signed {
			p = "bvs"
		}
		op := map[token.Token]string{token.LSS: "lt", token.LEQ: "le", token.GTR: "gt", token.GEQ: "ge"}[x.Op]
		return c.BVCmp(p+op, ta, tb)
	}
	fx.oos("binary operator %s", x.Op)
	return nil
}

// shift implements Go shift semantics (count >= width gives 0 / sign fill).
func (fx *FnExec) shift(left, signed bool, a, cnt *Term, w, cw int) *Term {
	c := fx.c
	var cn *Term
	big := c.False()
	if cw > w {
		// count wider than operand: large if any high bit set or >= w
		big = c.BVCmp("bvuge", cnt, c.BVInt(int64(w), cw))
		cn = c.Extract(w-1, 0, cnt)
	} else {
		cn = c.ZeroExt(cnt, w)
		big = c.BVCmp("bvuge", cn, c.BVInt(int64(w), w))
	}
	if left {
		return c.Ite(big, c.BVInt(0, w), c.BVBin("bvshl", a, cn))
	}
	if signed {
		return c.Ite(big, c.BVBin("bvashr", a, c.BVInt(int64(w-1), w)), c.BVBin("bvashr", a, cn))
	}
	return c.Ite(big, c.BVInt(0, w), c.BVBin("bvlshr", a, cn))
}

// valEq: Go == on two values of static type t.
func (fx *FnExec) valEq(st *State, t types.Type, a, b Val, bt types.Type) *Term {
	c := fx.c
	// interface compared with concrete value etc. is normalised by go/ssa (MakeInterface) already
	switch x := a.(type) {
	case *Term:
		switch y := b.(type) {
		case *Term:
			if x.Sort.IsArr() {
				return fx.arrEq(t, x, y)
			}
			return c.Eq(x, y)
		case PtrV:
			return c.Eq(x, fx.ptrRef(y))
		case IfaceV:
			return c.And(c.Eq(y.Tag, c.BVInt(0, 32)))
		case SliceV:
			return c.Eq(y.Ref, fx.nilRef())
		}
	case PtrV:
		switch y := b.(type) {
		case PtrV:
			if x.Kind == PLocal || y.Kind == PLocal || x.Kind == PGlobal || y.Kind == PGlobal {
				if x.Kind == y.Kind && x.Alloc == y.Alloc && x.Global == y.Global {
					return c.True()
				}
				if (x.Ref != nil && x.Ref == fx.nilRef()) || (y.Ref != nil && y.Ref == fx.nilRef()) {
					return c.False()
				}
				fx.oos("comparison of local/global addresses")
			}
			if x.Kind == PField || x.Kind == PElem || y.Kind == PField || y.Kind == PElem {
				if x.Kind != y.Kind {
					if (x.Ref == fx.nilRef()) || (y.Ref == fx.nilRef()) {
						return c.False()
					}
					fx.oos("comparison of interior pointers of different shape")
				}
				e := c.Eq(x.Ref, y.Ref)
				if x.Kind == PElem {
					e = c.And(e, c.Eq(x.Idx, y.Idx))
				} else if x.Field != y.Field {
					return c.False()
				}
				return e
			}
			return c.Eq(x.Ref, y.Ref)
		case *Term:
			if x.Kind == PLocal || x.Kind == PGlobal || x.Kind == PField || x.Kind == PElem {
				if y == fx.nilRef() {
					return c.False()
				}
			}
			return c.Eq(fx.ptrRef(x), y)
		}
	case IfaceV:
		switch y := b.(type) {
		case IfaceV:
			// an interface is nil iff its type tag is 0
			z := c.BVInt(0, 32)
			if y.Tag == z {
				return c.Eq(x.Tag, z)
			}
			if x.Tag == z {
				return c.Eq(y.Tag, z)
			}
			return c.And(c.Eq(x.Tag, y.Tag), c.Or(c.Eq(x.Tag, z), c.Eq(x.Ref, y.Ref)))
		case *Term:
			return c.Eq(x.Tag, c.BVInt(0, 32))
		}
	case SliceV:
		// only comparison with nil is legal
		return c.Eq(x.Ref, fx.nilRef())
	case StrV:
		y := b.(StrV)
		return fx.strEq(x, y)
	case StructV:
		y := b.(StructV)
		s := under(t).(*types.Struct)
		var parts []*Term
		for i := range x.F {
			parts = append(parts, fx.valEq(st, s.Field(i).Type(), x.F[i], y.F[i], s.Field(i).Type()))
		}
		return c.And(parts...)
	}
	fx.oos("equality on %T / %T", a, b)
	return nil
}

func (fx *FnExec) arrEq(t types.Type, a, b *Term) *Term {
	c := fx.c
	if a == b {
		return c.True()
	}
	at, ok := under(t).(*types.Array)
	if !ok {
		return c.Eq(a, b)
	}
	n := at.Len()
	if eb, ok := under(at.Elem()).(*types.Basic); ok && eb.Kind() == types.Uint8 && n <= 64 && n > 0 {
		// byte arrays: one equality of the packed words (the same packing keys maps)
		return c.Eq(fx.packBytes(a, n), fx.packBytes(b, n))
	}
	if n <= 64 {
		var parts []*Term
		for k := int64(0); k < n; k++ {
			ea, eb := c.Select(a, fx.bv64(k)), c.Select(b, fx.bv64(k))
			if ea.Sort.IsArr() {
				parts = append(parts, fx.arrEq(at.Elem(), ea, eb))
			} else {
				parts = append(parts, c.Eq(ea, eb))
			}
		}
		return c.And(parts...)
	}
	k := c.BoundVar("k", BV(64))
	return c.Forall([]*Term{k}, c.Implies(c.BVCmp("bvult", k, fx.bv64(n)), c.Eq(c.Select(a, k), c.Select(b, k))))
}

// strEq encodes string equality exactly with a Skolem witness for inequality.
func (fx *FnExec) strEq(x, y StrV) *Term {
	c := fx.c
	if x == y {
		return c.True()
	}
	lenEq := c.Eq(x.Len, y.Len)
	if lenEq.IsFalse() {
		return c.False()
	}
	// small constant length: expand
	if x.Len.Op == "bv" && x.Len.Val.IsInt64() && x.Len.Val.Int64() <= 32 || y.Len.Op == "bv" && y.Len.Val.IsInt64() && y.Len.Val.Int64() <= 32 {
		var n int64
		if x.Len.Op == "bv" {
			n = x.Len.Val.Int64()
		} else {
			n = y.Len.Val.Int64()
		}
		parts := []*Term{lenEq}
		for k := int64(0); k < n; k++ {
			parts = append(parts, c.Eq(c.Select(x.Arr, c.BVBin("bvadd", x.Off, fx.bv64(k))), c.Select(y.Arr, c.BVBin("bvadd", y.Off, fx.bv64(k)))))
		}
		return c.And(parts...)
	}
	if x.Arr.open || x.Off.open || x.Len.open || y.Arr.open || y.Off.open || y.Len.open {
		// under a quantifier no Skolem constants may be introduced: plain definition
		m := c.BoundVarNamed(fmt.Sprintf("m@seq.%d.%d.%d.%d", x.Arr.ID, x.Off.ID, y.Arr.ID, y.Off.ID), BV(64))
		return c.And(lenEq, c.Forall([]*Term{m}, c.Implies(c.BVCmp("bvult", m, x.Len), c.Eq(c.Select(x.Arr, c.BVBin("bvadd", x.Off, m)), c.Select(y.Arr, c.BVBin("bvadd", y.Off, m))))))
	}
	ck := [6]int{x.Arr.ID, x.Off.ID, x.Len.ID, y.Arr.ID, y.Off.ID, y.Len.ID}
	if fx.streqCache == nil {
		fx.streqCache = map[[6]int]*Term{}
	}
	if e, ok := fx.streqCache[ck]; ok {
		return e
	}
	eq := c.Fresh("streq", BoolSort)
	fx.streqCache[ck] = eq
	fx.streqCache[[6]int{y.Arr.ID, y.Off.ID, y.Len.ID, x.Arr.ID, x.Off.ID, x.Len.ID}] = eq
	k := c.BoundVar("k", BV(64))
	all := c.Forall([]*Term{k}, c.Implies(c.BVCmp("bvult", k, x.Len), c.Eq(c.Select(x.Arr, c.BVBin("bvadd", x.Off, k)), c.Select(y.Arr, c.BVBin("bvadd", y.Off, k)))))
	w := c.Fresh("strneq.w", BV(64))
	fx.assumeGlobal(c.Implies(eq, c.And(lenEq, all)))
	fx.assumeGlobal(c.Implies(c.Not(eq), c.Or(c.Not(lenEq), c.And(c.BVCmp("bvult", w, x.Len), c.Not(c.Eq(c.Select(x.Arr, c.BVBin("bvadd", x.Off, w)), c.Select(y.Arr, c.BVBin("bvadd", y.Off, w))))))))
	return eq
}

func (fx *FnExec) convert(fr *frame, st *State, x *ssa.Convert) Val {
	c := fx.c
	v := fx.val(fr, x.X)
	from, to := x.X.Type(), x.Type()
	fw, fsigned, fok := intWidth(from)
	tw, _, tok := intWidth(to)
	if fok && tok {
		if isFloat(from) || isFloat(to) {
			if isFloat(from) && isFloat(to) {
				return v
			}
			fx.drop("floating-point conversion (result unconstrained)")
			return c.Fresh("fconv", BV(tw))
		}
		t := v.(*Term)
		if tw <= fw {
			return c.Extract(tw-1, 0, t)
		}
		if fsigned {
			return c.SignExt(t, tw)
		}
		return c.ZeroExt(t, tw)
	}
	// string <-> []byte
	if isStringT(from) {
		if sl, ok := under(to).(*types.Slice); ok {
			s := v.(StrV)
			if b, ok := under(sl.Elem()).(*types.Basic); ok && b.Kind() == types.Uint8 {
				r := fx.newRef("bytes")
				res := SliceV{r, fx.bv64(0), s.Len, s.Len}
				arr := c.Fresh("conv.bytes", byteArr)
				fx.setElemArray(st, sl.Elem(), r, arr)
				fx.assumeCopy(arr, fx.bv64(0), s.Arr, s.Off, s.Len)
				fx.assumeGlobal(c.Eq(fx.rngTermRef(arr, fx.bv64(0), s.Len, r), fx.rngTerm(s.Arr, s.Off, s.Len)))
				return res
			}
			fx.drop("string to []rune conversion (contents unconstrained)")
			r := fx.newRef("runes")
			ln := c.Fresh("runes.len", BV(64))
			fx.assumeGlobal(c.And(c.BVCmp("bvsle", fx.bv64(0), ln), c.BVCmp("bvsle", ln, s.Len)))
			return SliceV{r, fx.bv64(0), ln, ln}
		}
		if isStringT(to) {
			return v
		}
	}
	if isStringT(to) {
		if sl, ok := under(from).(*types.Slice); ok {
			s := v.(SliceV)
			if b, ok := under(sl.Elem()).(*types.Basic); ok && b.Kind() == types.Uint8 {
				src := fx.elemArray(st, sl.Elem(), s.Ref)
				// strings are immutable: snapshot of the current contents
				return StrV{src, s.Off, s.Len}
			}
			fx.drop("[]rune to string conversion (contents unconstrained)")
			return fx.freshVal(to, "runestr")
		}
		if fok {
			fx.drop("integer to string conversion (contents unconstrained)")
			return fx.freshVal(to, "intstr")
		}
	}
	// pointer / unsafe conversions
	if _, ok := under(to).(*types.Pointer); ok {
		fx.oos("unsafe pointer conversion")
	}
	if s := singleSort(to); s != nil {
		if t, ok := v.(*Term); ok && t.Sort == s {
			return t
		}
	}
	fx.oos("conversion %s -> %s", from, to)
	return nil
}

// assumeCopy: dst[doff+k] == src[soff+k] for k < n.
func (fx *FnExec) assumeCopy(dst, doff, src, soff, n *Term) {
	c := fx.c
	if n.Op == "bv" && n.Val.IsInt64() && n.Val.Int64() <= 64 {
		for k := int64(0); k < n.Val.Int64(); k++ {
			fx.assumeGlobal(c.Eq(c.Select(dst, c.BVBin("bvadd", doff, fx.bv64(k))), c.Select(src, c.BVBin("bvadd", soff, fx.bv64(k)))))
		}
		return
	}
	k := c.BoundVar("k", BV(64))
	fx.assumeGlobal(c.Forall([]*Term{k}, c.Implies(c.BVCmp("bvult", k, n), c.Eq(c.Select(dst, c.BVBin("bvadd", doff, k)), c.Select(src, c.BVBin("bvadd", soff, k))))))
}

func (fx *FnExec) makeInterface(fr *frame, st *State, t types.Type, v Val) Val {
	c := fx.c
	tag := c.BVInt(int64(fx.eng.typeTag(t)), 32)
	switch x := v.(type) {
	case PtrV:
		if x.Kind == PObj || x.Kind == PBox {
			fx.escapeRef(st, x.Ref)
			return IfaceV{tag, x.Ref}
		}
		if x.Kind == PField {
			// pointer to a non-object field: the interface value keeps an abstract identity fld|T|f(object)
			// (usable as a key in ghost state; the field itself is not reachable through it in the model)
			fx.note("pointer to a field boxed into an interface: identity kept (fld|T|f), target not reachable through the interface in the model")
			stt := under(x.StructT).(*types.Struct)
			return IfaceV{tag, c.App("fld|"+typeKey(x.StructT)+"|"+stt.Field(x.Field).Name(), RefSort, x.Ref)}
		}
		fx.drop("interior pointer boxed into an interface (identity lost)")
		return IfaceV{tag, c.Fresh("ibox", RefSort)}
	case *Term:
		if x.Sort == RefSort {
			return IfaceV{tag, x}
		}
	}
	// box the value so that a later type assertion can recover it; boxed copies are immutable
	// and live in their own families (IB|…), so they never alias program memory
	r := fx.newRef("ibox")
	if s := singleSort(t); s != nil {
		if tm, ok := v.(*Term); ok && tm.Sort == s {
			key := "IB|" + typeKey(t) + "|"
			fam := fx.family(st, key, ArrSort(RefSort, s))
			fx.setFamily(st, key, c.Store(fam, r, tm))
		}
	} else if !isObjT(t) && leavesOf(t) != nil {
		lvs := fx.toLeaves(t, v)
		for k, lf := range leavesOf(t) {
			key := "IB|" + typeKey(t) + "|" + lf.name
			fam := fx.family(st, key, ArrSort(RefSort, lf.sort))
			fx.setFamily(st, key, c.Store(fam, r, lvs[k]))
		}
		fx.escape(fr, st, v)
	} else {
		fx.escape(fr, st, v)
	}
	return IfaceV{tag, r}
}

// unbox reads a value boxed by makeInterface.
func (fx *FnExec) unbox(st *State, t types.Type, r *Term) Val {
	if s := singleSort(t); s != nil {
		key := "IB|" + typeKey(t) + "|"
		fam := fx.family(st, key, ArrSort(RefSort, s))
		v := fx.c.Select(fam, r)
		if p, ok := under(t).(*types.Pointer); ok {
			return fx.ptrFromRef(p.Elem(), v)
		}
		return v
	}
	if !isObjT(t) && leavesOf(t) != nil {
		var ls []*Term
		for _, lf := range leavesOf(t) {
			key := "IB|" + typeKey(t) + "|" + lf.name
			fam := fx.family(st, key, ArrSort(RefSort, lf.sort))
			ls = append(ls, fx.c.Select(fam, r))
		}
		return fx.fromLeaves(t, ls, true)
	}
	fx.drop("type assertion to a struct value (contents unconstrained)")
	return fx.freshVal(t, "unboxed")
}

func (fx *FnExec) typeAssert(fr *frame, st *State, x *ssa.TypeAssert) Val {
	c := fx.c
	iv, ok := fx.val(fr, x.X).(IfaceV)
	if !ok {
		fx.oos("TypeAssert on non-interface value")
	}
	var okT *Term
	var res Val
	if types.IsInterface(x.AssertedType) {
		okT = c.Fresh("assert.ok", BoolSort)
		fx.assumeGlobal(c.Implies(okT, c.Not(c.Eq(iv.Tag, c.BVInt(0, 32)))))
		res = iv
	} else {
		okT = c.Eq(iv.Tag, c.BVInt(int64(fx.eng.typeTag(x.AssertedType)), 32))
		t := x.AssertedType
		if p, isP := under(t).(*types.Pointer); isP {
			res = fx.ptrFromRef(p.Elem(), iv.Ref)
		} else {
			res = fx.unbox(st, t, iv.Ref)
		}
	}
	if x.CommaOk {
		// on failure the value is the zero value
		z := fx.zeroVal(x.AssertedType)
		return TupleV{fx.mergeVal(okT, res, z), okT}
	}
	fx.oblige(fr, st, "assert", x.Pos(), okT, "type assertion holds")
	return res
}

func (fx *FnExec) selectInstr(fr *frame, st *State, x *ssa.Select) Val {
	c := fx.c
	fx.drop("select statement (nondeterministic choice, no blocking semantics)")
	n := len(x.States)
	idx := c.Fresh("select.idx", BV(64))
	lo := int64(0)
	if !x.Blocking {
		lo = -1
	}
	fx.assumeGlobal(c.And(c.BVCmp("bvsle", fx.bv64(lo), idx), c.BVCmp("bvslt", idx, fx.bv64(int64(n)))))
	tv := TupleV{idx, c.Fresh("select.ok", BoolSort)}
	for _, s := range x.States {
		if s.Dir == types.RecvOnly {
			et := s.Chan.Type().Underlying().(*types.Chan).Elem()
			v := fx.freshVal(et, "select.recv")
			fx.markNilable(v)
			tv = append(tv, v)
		} else if s.Send != nil {
			fx.escape(fr, st, fx.val(fr, s.Send))
		}
	}
	return tv
}

// packBytes concatenates the first n bytes of a byte array into one bit-vector.
func (fx *FnExec) packBytes(a *Term, n int64) *Term {
	var t *Term
	for i := int64(0); i < n; i++ {
		b := fx.c.Select(a, fx.bv64(i))
		if t == nil {
			t = b
		} else {
			t = fx.c.Concat(t, b)
		}
	}
	return t
}

var os_noLocalObj = os.Getenv("HOPVC_NO_LOCAL_OBJ") != ""

// valueRepresentable: the type has a value representation (structs of such, arrays with single-sort elements).
func valueRepresentable(t types.Type) bool {
	switch u := under(t).(type) {
	case *types.Struct:
		for i := 0; i < u.NumFields(); i++ {
			ft := u.Field(i).Type()
			if isObjT(ft) {
				if !valueRepresentable(ft) {
					return false
				}
			} else if leavesOf(ft) == nil {
				return false
			}
		}
		return true
	case *types.Array:
		return singleSort(t) != nil && !isObjT(u.Elem())
	}
	return false
}

// reprEq: representation equality of two values of type t.
func (fx *FnExec) reprEq(t types.Type, a, b Val) *Term {
	c := fx.c
	switch x := a.(type) {
	case *Term:
		y, ok := b.(*Term)
		if !ok {
			if p, isP := b.(PtrV); isP {
				return c.Eq(x, fx.ptrRef(p))
			}
			fx.oos("same(): shapes differ")
		}
		if x.Sort.IsArr() && t != nil && isArrayT(t) {
			return fx.arrEq(t, x, y)
		}
		return c.Eq(x, y)
	case SliceV:
		y := b.(SliceV)
		return c.And(c.Eq(x.Ref, y.Ref), c.Eq(x.Off, y.Off), c.Eq(x.Len, y.Len), c.Eq(x.Cap, y.Cap))
	case StrV:
		y := b.(StrV)
		return c.And(c.Eq(x.Arr, y.Arr), c.Eq(x.Off, y.Off), c.Eq(x.Len, y.Len))
	case IfaceV:
		y := b.(IfaceV)
		return c.And(c.Eq(x.Tag, y.Tag), c.Eq(x.Ref, y.Ref))
	case PtrV:
		switch y := b.(type) {
		case PtrV:
			return c.Eq(fx.ptrRef(x), fx.ptrRef(y))
		case *Term:
			return c.Eq(fx.ptrRef(x), y)
		}
	case StructV:
		y := b.(StructV)
		s := under(t).(*types.Struct)
		var parts []*Term
		for i := range x.F {
			parts = append(parts, fx.reprEq(s.Field(i).Type(), x.F[i], y.F[i]))
		}
		return c.And(parts...)
	}
	fx.oos("same() on %T", a)
	return nil
}

// readOnlyCapture: the variable a is captured by the closure mc and the closure body only ever loads it.
func readOnlyCapture(mc *ssa.MakeClosure, a *ssa.Alloc) bool {
	fn, ok := mc.Fn.(*ssa.Function)
	if !ok {
		return false
	}
	// Where the closure value goes does not matter: only the closure holds the variable's address, and if
	// its body never stores through it nor passes it on, nobody but the enclosing function changes the variable.
	for i, b := range mc.Bindings {
		if b != a {
			continue
		}
		if i >= len(fn.FreeVars) {
			return false
		}
		fv := fn.FreeVars[i]
		refs := fv.Referrers()
		if refs == nil {
			return false
		}
		for _, r := range *refs {
			switch x := r.(type) {
			case *ssa.DebugRef:
			case *ssa.UnOp:
				if x.Op != token.MUL {
					return false
				}
			default:
				return false
			}
		}
	}
	return true
}
