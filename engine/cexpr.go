package main

// Evaluation of contract expressions to symbolic values.

import (
	"fmt"
	"go/constant"
	"go/token"
	"go/types"
	"math/big"
	"strconv"
	"strings"

	"golang.org/x/tools/go/ssa"
)

type CVal struct {
	V       Val
	T       types.Type // Go type when known
	G       *CType     // ghost type otherwise
	Signed  bool
	Untyped bool
	Lit     *big.Int
	SetLit  []*CExpr
	ObjVal  bool // V is a pointer standing for the struct/array VALUE it points to
}

type CEnv struct {
	fx    *FnExec
	fr    *frame
	st    *State
	old   *State
	vars  map[string]CVal
	bound map[string]CVal // quantifier / let variables (innermost scope)
	scope token.Pos       // position for local-name lookup (0: none)
	inOld bool
	what  string
	// assumeFresh: fresh(x) introduces a new allocation (callee contract being assumed at a call site)
	assumeFresh bool
	li          *loopInfo
}

// inLoopHead: the range counter belonging to loop li is the one incremented in its head block.
func inLoopHead(li *loopInfo, a *ssa.Alloc) bool {
	for _, ins := range li.head.Instrs {
		if st, ok := ins.(*ssa.Store); ok && st.Addr == a {
			return true
		}
	}
	return false
}

type cerr struct{ msg string }

func (e *CEnv) fail(format string, a ...interface{}) {
	panic(cerr{fmt.Sprintf(format, a...)})
}

func (e *CEnv) child() *CEnv {
	n := *e
	n.bound = make(map[string]CVal, len(e.bound)+2)
	for k, v := range e.bound {
		n.bound[k] = v
	}
	return &n
}

// ---- ghost types

func (e *CEnv) sortOf(t *CType) (*Sort, bool) {
	switch t.Kind {
	case "name":
		switch t.Name {
		case "bool":
			return BoolSort, false
		case "uint8", "byte":
			return BV(8), false
		case "uint16":
			return BV(16), false
		case "uint32":
			return BV(32), false
		case "uint64", "uint", "uintptr":
			return BV(64), false
		case "int8":
			return BV(8), true
		case "int16":
			return BV(16), true
		case "int32", "rune":
			return BV(32), true
		case "int64", "int":
			return BV(64), true
		case "Ref":
			return RefSort, false
		case "bytearr":
			return byteArr, false
		case "string":
			e.fail("string-typed ghost values are not supported; use Bytes")
		}
		if e.fx.eng.db.Sorts[t.Name] {
			return UnintSort(t.Name), false
		}
		// a named Go type of the current package
		if gt := e.lookupGoType(t.Name); gt != nil {
			if w, s, ok := intWidth(gt); ok {
				return BV(w), s
			}
			if isBoolT(gt) {
				return BoolSort, false
			}
			if ss := singleSort(gt); ss != nil {
				return ss, false
			}
		}
		e.fail("unknown type %s", t.Name)
	case "array":
		es, _ := e.sortOf(t.Elem)
		return ArrSort(BV(64), es), false
	case "set":
		es, _ := e.sortOf(t.Elem)
		return ArrSort(es, BoolSort), false
	case "map":
		ks, _ := e.sortOf(t.Key)
		es, _ := e.sortOf(t.Elem)
		return ArrSort(ks, es), false
	case "ptr":
		return RefSort, false
	}
	e.fail("unsupported ghost type %s", t)
	return nil, false
}

func (e *CEnv) lookupGoType(name string) types.Type {
	var pkg *types.Package
	if e.fr != nil && e.fr.fn.Pkg != nil {
		pkg = e.fr.fn.Pkg.Pkg
	}
	if i := strings.IndexByte(name, '.'); i >= 0 {
		pkg = e.fx.eng.pkgByName(name[:i])
		name = name[i+1:]
	}
	if pkg == nil {
		return nil
	}
	if o := pkg.Scope().Lookup(name); o != nil {
		if tn, ok := o.(*types.TypeName); ok {
			return tn.Type()
		}
	}
	return nil
}

func ghostElemType(g *CType) *CType {
	if g == nil {
		return nil
	}
	switch g.Kind {
	case "array", "map":
		return g.Elem
	case "set":
		return &CType{Kind: "name", Name: "bool"}
	}
	return nil
}

// ---- evaluation

func (e *CEnv) Bool(x *CExpr) *Term {
	v := e.Eval(x)
	t, ok := v.V.(*Term)
	if !ok || t.Sort != BoolSort {
		e.fail("boolean expression expected: %s", exprString(x))
	}
	return t
}

func exprString(x *CExpr) string {
	if x == nil {
		return ""
	}
	if x.Src != "" {
		return x.Src
	}
	switch x.Op {
	case "ident", "num", "str", "char":
		return x.Name
	case "bin":
		return "(" + exprString(x.Args[0]) + " " + x.Name + " " + exprString(x.Args[1]) + ")"
	case "un":
		return x.Name + exprString(x.Args[0])
	case "field":
		return exprString(x.Args[0]) + "." + x.Name
	case "index":
		return exprString(x.Args[0]) + "[" + exprString(x.Args[1]) + "]"
	case "call":
		var as []string
		for _, a := range x.Args {
			as = append(as, exprString(a))
		}
		return x.Name + "(" + strings.Join(as, ", ") + ")"
	case "paren":
		return "(" + exprString(x.Args[0]) + ")"
	}
	return x.Op
}

func (e *CEnv) objVal(p PtrV) CVal {
	return CVal{V: p, T: types.NewPointer(p.Elem), ObjVal: true}
}

func (e *CEnv) goVal(v Val, t types.Type) CVal {
	cv := CVal{V: v, T: t}
	if _, s, ok := intWidth(t); ok {
		cv.Signed = s
	}
	return cv
}

func (e *CEnv) Eval(x *CExpr) CVal {
	c := e.fx.c
	switch x.Op {
	case "paren":
		return e.Eval(x.Args[0])
	case "num":
		bi, ok := new(big.Int).SetString(x.Name, 0)
		if !ok {
			e.fail("bad number %s", x.Name)
		}
		return CVal{Untyped: true, Lit: bi}
	case "char":
		s, err := strconv.Unquote(x.Name)
		if err != nil || len(s) == 0 {
			e.fail("bad char literal %s", x.Name)
		}
		return CVal{Untyped: true, Lit: big.NewInt(int64([]rune(s)[0]))}
	case "str":
		s, err := strconv.Unquote(x.Name)
		if err != nil {
			e.fail("bad string literal %s", x.Name)
		}
		return CVal{V: e.fx.strConst(s), T: types.Typ[types.String]}
	case "setlit":
		return CVal{SetLit: x.Args, Untyped: true}
	case "ident":
		return e.ident(x.Name)
	case "old":
		return e.evalOld(x.Args[0])
	case "let":
		v := e.Eval(x.Args[0])
		n := e.child()
		n.bound[x.Name] = v
		return n.Eval(x.Args[1])
	case "ite":
		cond := e.Bool(x.Args[0])
		a, b := e.Eval(x.Args[1]), e.Eval(x.Args[2])
		if a.ObjVal || b.ObjVal {
			a, b = e.loadObjVal(a), e.loadObjVal(b)
		}
		a, b = e.unify(a, b)
		r := a
		r.V = e.fx.mergeVal(cond, a.V, b.V)
		return r
	case "forall", "exists":
		n := e.child()
		var bound []*Term
		for _, v := range x.Vars {
			s, signed := e.sortOf(v.Type)
			bv := c.BoundVarNamed(fmt.Sprintf("%s@%d", v.Name, e.fx.eng.exprID(x)), s)
			bound = append(bound, bv)
			cv := CVal{V: bv, G: v.Type, Signed: signed, T: e.goTypeOf(v.Type)}
			if v.Type.Kind == "ptr" && cv.T != nil {
				if pt, ok := cv.T.(*types.Pointer); ok {
					cv.V = e.fx.ptrFromRef(pt.Elem(), bv)
				}
			}
			n.bound[v.Name] = cv
		}
		body := n.Bool(x.Args[0])
		if len(x.Args) > 1 {
			var pat []*Term
			for _, pe := range x.Args[1:] {
				if t, ok := n.Eval(pe).V.(*Term); ok {
					pat = append(pat, t)
				}
			}
			if len(pat) > 0 {
				return CVal{V: c.Quant(x.Op, bound, body, pat), T: types.Typ[types.Bool]}
			}
		}
		return CVal{V: c.Quant(x.Op, bound, body), T: types.Typ[types.Bool]}
	case "un":
		return e.unary(x)
	case "bin":
		return e.binary(x)
	case "field":
		return e.field(x)
	case "index":
		return e.index(x)
	case "slice":
		return e.sliceExpr(x)
	case "call":
		return e.call(x)
	}
	e.fail("unsupported expression %s", x.Op)
	return CVal{}
}

func (e *CEnv) evalOld(x *CExpr) CVal {
	if e.old == nil {
		e.fail("old() is not available here")
	}
	n := *e
	n.st = e.old
	n.inOld = true
	v := n.Eval(x)
	if v.ObjVal {
		// a struct/array VALUE of the old state: snapshot it now (a pointer would be read in a later state)
		v = n.loadObjVal(v)
	}
	return v
}

func (e *CEnv) ident(name string) CVal {
	c := e.fx.c
	if v, ok := e.bound[name]; ok {
		return v
	}
	if name == "rangeindex" && e.li != nil && !e.inOld {
		// hidden counter of a range-over-slice loop (value at the loop head: index of the last visited element)
		for a := range e.li.modAlloc {
			if a.Comment == "rangeindex" && a.Parent() == e.fr.fn {
				if inLoopHead(e.li, a) {
					return e.goVal(e.fx.load(e.st, e.fr.regs[a].(PtrV)), types.Typ[types.Int])
				}
			}
		}
		e.fail("this loop has no range index")
	}
	// inside the body (loop invariants) a name denotes the variable's current value
	if e.fr != nil && e.scope.IsValid() && !e.inOld {
		if a := e.fx.localByName(e.fr, name, e.scope); a != nil {
			if p := e.fr.regs[a]; p != nil {
				t := a.Type().(*types.Pointer).Elem()
				pv := p.(PtrV)
				if pv.Kind == PObj {
					return e.objVal(pv)
				}
				return e.goVal(e.fx.load(e.st, pv), t)
			}
		}
	}
	if v, ok := e.vars[name]; ok {
		return v
	}
	if cv, ok := e.fx.capTypes[name]; ok {
		// value captured by an "after <callee> let" clause
		if t, ok := e.st.ghost["cap|"+name].(*Term); ok {
			cv.V = t
			return cv
		}
		e.fail("captured value %s is not defined on this path", name)
	}
	switch name {
	case "true":
		return CVal{V: c.True(), T: types.Typ[types.Bool]}
	case "false":
		return CVal{V: c.False(), T: types.Typ[types.Bool]}
	case "nil":
		return CVal{V: e.fx.nilRef(), Untyped: true}
	}
	// ghost state
	if g, ok := e.st.ghost[name]; ok {
		gt := e.fx.eng.ghostTypes[name]
		_, signed := e.sortOf(gt)
		return CVal{V: g, G: gt, Signed: signed}
	}
	if ce, ok := e.fx.eng.db.Consts[name]; ok {
		return e.Eval(ce)
	}
	// package-level constants and variables
	if e.fr != nil && e.fr.fn.Pkg != nil {
		if cv, ok := e.pkgObject(e.fr.fn.Pkg.Pkg, name); ok {
			return cv
		}
	}
	e.fail("unknown identifier %s", name)
	return CVal{}
}

func (e *CEnv) pkgObject(pkg *types.Package, name string) (CVal, bool) {
	o := pkg.Scope().Lookup(name)
	if o == nil {
		return CVal{}, false
	}
	switch ob := o.(type) {
	case *types.Const:
		if ob.Val().Kind() == constant.Int {
			bi, _ := new(big.Int).SetString(ob.Val().ExactString(), 10)
			if b, ok := ob.Type().Underlying().(*types.Basic); ok && b.Info()&types.IsUntyped == 0 {
				w, s, _ := intWidth(ob.Type())
				return CVal{V: e.fx.c.BVConst(bi, w), T: ob.Type(), Signed: s}, true
			}
			return CVal{Untyped: true, Lit: bi}, true
		}
		if ob.Val().Kind() == constant.Bool {
			return CVal{V: e.fx.c.Bool(constant.BoolVal(ob.Val())), T: types.Typ[types.Bool]}, true
		}
		if ob.Val().Kind() == constant.String {
			return CVal{V: e.fx.strConst(constant.StringVal(ob.Val())), T: types.Typ[types.String]}, true
		}
	case *types.Var:
		sp := e.fx.eng.prog.Package(pkg)
		if sp != nil {
			if g, ok := sp.Members[name].(*ssa.Global); ok {
				t := g.Type().(*types.Pointer).Elem()
				if isObjT(t) {
					if _, isArr := under(t).(*types.Array); isArr && singleSort(t) != nil && e.fx.eng.globalNeverWritten(g) {
						// same rule as the program's own loads (loadGlobal): a never-written array global is its zero value
						return CVal{V: e.fx.zeroVal(t), T: t}, true
					}
					return e.objVal(PtrV{Kind: PObj, Ref: e.fx.c.Const(globalKey(g), RefSort), Elem: t}), true
				}
				return e.goVal(e.fx.loadGlobal(e.st, g), t), true
			}
		}
	}
	return CVal{}, false
}

// typed converts an untyped literal to the sort of like.
func (e *CEnv) typed(v CVal, like CVal) CVal {
	if !v.Untyped {
		return v
	}
	c := e.fx.c
	if v.SetLit != nil {
		lt, ok := like.V.(*Term)
		if !ok || !lt.Sort.IsArr() || lt.Sort.Elem != BoolSort {
			e.fail("set literal needs a set-typed context")
		}
		s := c.ConstArr(lt.Sort, c.False())
		eg := ghostElemOf(like)
		for _, a := range v.SetLit {
			av := e.typed(e.Eval(a), CVal{V: c.Fresh("dummy", lt.Sort.Idx), G: eg})
			s = c.Store(s, av.V.(*Term), c.True())
		}
		return CVal{V: s, G: like.G}
	}
	if v.Lit == nil {
		// nil
		switch lv := like.V.(type) {
		case PtrV:
			return CVal{V: e.fx.ptrFromRef(lv.Elem, e.fx.nilRef()), T: like.T}
		case IfaceV:
			return CVal{V: IfaceV{c.BVInt(0, 32), e.fx.nilRef()}, T: like.T}
		case SliceV:
			return CVal{V: SliceV{e.fx.nilRef(), e.fx.bv64(0), e.fx.bv64(0), e.fx.bv64(0)}, T: like.T}
		}
		return CVal{V: e.fx.nilRef(), T: like.T}
	}
	lt, ok := like.V.(*Term)
	if !ok || !lt.Sort.IsBV() {
		if like.Untyped && like.Lit != nil {
			return CVal{V: c.BVConst(v.Lit, 64), Signed: true, T: types.Typ[types.Int]}
		}
		e.fail("integer literal used with a non-integer operand")
	}
	return CVal{V: c.BVConst(v.Lit, lt.Sort.Width), T: like.T, G: like.G, Signed: like.Signed}
}

func ghostElemOf(v CVal) *CType {
	if v.G != nil && v.G.Kind == "set" {
		return v.G.Elem
	}
	return nil
}

func (e *CEnv) unify(a, b CVal) (CVal, CVal) {
	if a.Untyped && b.Untyped {
		if a.Lit != nil && b.Lit != nil {
			c := e.fx.c
			return CVal{V: c.BVConst(a.Lit, 64), Signed: true, T: types.Typ[types.Int]}, CVal{V: c.BVConst(b.Lit, 64), Signed: true, T: types.Typ[types.Int]}
		}
		e.fail("cannot type operands")
	}
	if a.Untyped {
		a = e.typed(a, b)
	}
	if b.Untyped {
		b = e.typed(b, a)
	}
	return a, b
}

func (e *CEnv) unary(x *CExpr) CVal {
	c := e.fx.c
	switch x.Name {
	case "!":
		return CVal{V: c.Not(e.Bool(x.Args[0])), T: types.Typ[types.Bool]}
	case "-":
		v := e.Eval(x.Args[0])
		if v.Untyped {
			return CVal{Untyped: true, Lit: new(big.Int).Neg(v.Lit)}
		}
		v.V = c.BVNeg(v.V.(*Term))
		return v
	case "^":
		v := e.Eval(x.Args[0])
		if v.Untyped {
			return CVal{Untyped: true, Lit: new(big.Int).Not(v.Lit)}
		}
		v.V = c.BVNot(v.V.(*Term))
		return v
	case "*":
		v := e.Eval(x.Args[0])
		p, ok := v.V.(PtrV)
		if !ok {
			e.fail("dereference of a non-pointer: %s", exprString(x.Args[0]))
		}
		if p.Kind == PObj && !v.ObjVal {
			return e.objVal(p)
		}
		return e.goVal(e.fx.load(e.st, p), p.Elem)
	case "&":
		// &x.f of a non-object field: the abstract identity fld|T|f(x) (see makeInterface)
		if a := x.Args[0]; a.Op == "field" {
			if base := e.Eval(a.Args[0]); base.V != nil {
				if bp, ok := base.V.(PtrV); ok && bp.Kind == PObj {
					if stt, ok := under(bp.Elem).(*types.Struct); ok {
						for i := 0; i < stt.NumFields(); i++ {
							if stt.Field(i).Name() == a.Name && !isObjT(stt.Field(i).Type()) {
								return CVal{V: c.App("fld|"+typeKey(bp.Elem)+"|"+a.Name, RefSort, bp.Ref), G: &CType{Kind: "name", Name: "Ref"}}
							}
						}
					}
				}
			}
		}
		// &x.f : address of an object-typed field
		v := e.Eval(x.Args[0])
		if p, ok := v.V.(PtrV); ok && p.Kind == PObj {
			v.ObjVal = false
			return v
		}
		e.fail("unsupported address-of")
	}
	e.fail("unsupported unary %s", x.Name)
	return CVal{}
}

func (e *CEnv) binary(x *CExpr) CVal {
	c := e.fx.c
	boolT := types.Typ[types.Bool]
	switch x.Name {
	case "&&":
		a := e.Bool(x.Args[0])
		if a.IsFalse() {
			return CVal{V: a, T: boolT}
		}
		return CVal{V: c.And(a, e.Bool(x.Args[1])), T: boolT}
	case "||":
		a := e.Bool(x.Args[0])
		if a.IsTrue() {
			return CVal{V: a, T: boolT}
		}
		return CVal{V: c.Or(a, e.Bool(x.Args[1])), T: boolT}
	case "==>":
		a := e.Bool(x.Args[0])
		if a.IsFalse() {
			return CVal{V: c.True(), T: boolT}
		}
		return CVal{V: c.Implies(a, e.Bool(x.Args[1])), T: boolT}
	case "<==>":
		return CVal{V: c.Iff(e.Bool(x.Args[0]), e.Bool(x.Args[1])), T: boolT}
	}
	a, b := e.Eval(x.Args[0]), e.Eval(x.Args[1])
	if a.Untyped && b.Untyped && a.Lit != nil && b.Lit != nil {
		r := new(big.Int)
		switch x.Name {
		case "+":
			r.Add(a.Lit, b.Lit)
		case "-":
			r.Sub(a.Lit, b.Lit)
		case "*":
			r.Mul(a.Lit, b.Lit)
		case "/":
			r.Quo(a.Lit, b.Lit)
		case "%":
			r.Rem(a.Lit, b.Lit)
		case "<<":
			r.Lsh(a.Lit, uint(b.Lit.Int64()))
		case ">>":
			r.Rsh(a.Lit, uint(b.Lit.Int64()))
		case "&":
			r.And(a.Lit, b.Lit)
		case "|":
			r.Or(a.Lit, b.Lit)
		case "^":
			r.Xor(a.Lit, b.Lit)
		case "==":
			return CVal{V: c.Bool(a.Lit.Cmp(b.Lit) == 0), T: boolT}
		case "!=":
			return CVal{V: c.Bool(a.Lit.Cmp(b.Lit) != 0), T: boolT}
		case "<":
			return CVal{V: c.Bool(a.Lit.Cmp(b.Lit) < 0), T: boolT}
		case "<=":
			return CVal{V: c.Bool(a.Lit.Cmp(b.Lit) <= 0), T: boolT}
		case ">":
			return CVal{V: c.Bool(a.Lit.Cmp(b.Lit) > 0), T: boolT}
		case ">=":
			return CVal{V: c.Bool(a.Lit.Cmp(b.Lit) >= 0), T: boolT}
		default:
			e.fail("unsupported constant operator %s", x.Name)
		}
		return CVal{Untyped: true, Lit: r}
	}
	a, b = e.unify(a, b)
	switch x.Name {
	case "==", "!=":
		var eq *Term
		// struct / array values are compared by content
		if a.ObjVal || b.ObjVal {
			a, b = e.loadObjVal(a), e.loadObjVal(b)
		}
		ta, aok := a.V.(*Term)
		tb, bok := b.V.(*Term)
		if aok && bok && (a.T == nil || !isArrayT(a.T)) {
			if ta.Sort != tb.Sort {
				e.fail("comparison of different sorts in %s: %s vs %s", exprString(x), ta.Sort, tb.Sort)
			}
			eq = c.Eq(ta, tb)
		} else if aok && bok && ta.Sort == tb.Sort && (isSpecApp(ta) || isSpecApp(tb)) {
			// an array value compared with the result of a specification function: equality of the whole
			// SMT arrays (so that specification functions applied to either side agree by congruence); the
			// cells beyond the Go array's length carry no program meaning
			eq = c.Eq(ta, tb)
		} else {
			t := a.T
			if t == nil {
				t = b.T
			}
			eq = e.fx.valEq(e.st, t, a.V, b.V, t)
		}
		if x.Name == "!=" {
			eq = c.Not(eq)
		}
		return CVal{V: eq, T: boolT}
	}
	ta, aok := a.V.(*Term)
	tb, bok := b.V.(*Term)
	if !aok || !bok {
		e.fail("operator %s on non-scalar values in %s", x.Name, exprString(x))
	}
	// set operations
	if ta.Sort.IsArr() && ta.Sort.Elem == BoolSort {
		e.fail("set operator %s: use add(S, x) / S[x]", x.Name)
	}
	if !ta.Sort.IsBV() || ta.Sort != tb.Sort {
		if (x.Name == "<<" || x.Name == ">>") && ta.Sort.IsBV() && tb.Sort.IsBV() {
			r := a
			r.V = e.fx.shift(x.Name == "<<", a.Signed, ta, tb, ta.Sort.Width, tb.Sort.Width)
			return r
		}
		e.fail("operator %s on operands of sorts %s and %s in %s", x.Name, ta.Sort, tb.Sort, exprString(x))
	}
	signed := a.Signed
	r := a
	switch x.Name {
	case "+":
		r.V = c.BVBin("bvadd", ta, tb)
	case "-":
		r.V = c.BVBin("bvsub", ta, tb)
	case "*":
		r.V = c.BVBin("bvmul", ta, tb)
	case "&":
		r.V = c.BVBin("bvand", ta, tb)
	case "|":
		r.V = c.BVBin("bvor", ta, tb)
	case "^":
		r.V = c.BVBin("bvxor", ta, tb)
	case "&^":
		r.V = c.BVBin("bvand", ta, c.BVNot(tb))
	case "/":
		if signed {
			r.V = c.BVBin("bvsdiv", ta, tb)
		} else {
			r.V = c.BVBin("bvudiv", ta, tb)
		}
	case "%":
		if signed {
			r.V = c.BVBin("bvsrem", ta, tb)
		} else {
			r.V = c.BVBin("bvurem", ta, tb)
		}
	case "<<", ">>":
		r.V = e.fx.shift(x.Name == "<<", signed, ta, tb, ta.Sort.Width, tb.Sort.Width)
	case "<", "<=", ">", ">=":
		p := "bvu"
		if signed {
			p = "bvs"
		}
		op := map[string]string{"<": "lt", "<=": "le", ">": "gt", ">=": "ge"}[x.Name]
		return CVal{V: c.BVCmp(p+op, ta, tb), T: boolT}
	default:
		e.fail("unsupported operator %s", x.Name)
	}
	return r
}

func (e *CEnv) field(x *CExpr) CVal {
	// package-qualified name?
	if x.Args[0].Op == "ident" {
		_, isB := e.bound[x.Args[0].Name]
		if _, isVar := e.vars[x.Args[0].Name]; !isVar && !isB {
			if pkg := e.fx.eng.pkgByName(x.Args[0].Name); pkg != nil && (e.fr == nil || !e.scope.IsValid() || e.fx.localByName(e.fr, x.Args[0].Name, e.scope) == nil) {
				if cv, ok := e.pkgObject(pkg, x.Name); ok {
					return cv
				}
			}
		}
	}
	base := e.Eval(x.Args[0])
	return e.selectField(base, x.Name, x)
}

func (e *CEnv) selectField(base CVal, name string, x *CExpr) CVal {
	switch bv := base.V.(type) {
	case PtrV:
		if bv.Kind != PObj {
			e.fail("field %s of non-object pointer in %s", name, exprString(x))
		}
		st, ok := under(bv.Elem).(*types.Struct)
		if !ok {
			e.fail("field %s of non-struct %s", name, bv.Elem)
		}
		for i := 0; i < st.NumFields(); i++ {
			if st.Field(i).Name() == name {
				ft := st.Field(i).Type()
				if isObjT(ft) {
					return e.objVal(PtrV{Kind: PObj, Ref: e.fx.subRef(bv.Elem, i, bv.Ref), Elem: ft})
				}
				return e.goVal(e.fx.loadField(e.st, bv.Elem, i, bv.Ref), ft)
			}
		}
		// promoted through embedded fields
		for i := 0; i < st.NumFields(); i++ {
			if st.Field(i).Embedded() {
				ft := st.Field(i).Type()
				var inner CVal
				if isObjT(ft) {
					inner = e.objVal(PtrV{Kind: PObj, Ref: e.fx.subRef(bv.Elem, i, bv.Ref), Elem: ft})
				} else {
					inner = e.goVal(e.fx.loadField(e.st, bv.Elem, i, bv.Ref), ft)
				}
				if _, isP := inner.V.(PtrV); isP {
					if hasField(inner.V.(PtrV).Elem, name) {
						return e.selectField(inner, name, x)
					}
				}
			}
		}
		// ghost field (declared with ghostfield; written x.gh_name)
		if strings.HasPrefix(name, "gh_") {
			return e.ghostField(bv, "$"+strings.TrimPrefix(name, "gh_"))
		}
		e.fail("no field %s in %s", name, bv.Elem)
	case StructV:
		st := under(base.T).(*types.Struct)
		for i := 0; i < st.NumFields(); i++ {
			if st.Field(i).Name() == name {
				return e.goVal(bv.F[i], st.Field(i).Type())
			}
		}
		e.fail("no field %s in %s", name, base.T)
	case SliceV:
		switch name {
		case "$ref":
			return CVal{V: bv.Ref, G: &CType{Kind: "name", Name: "Ref"}}
		case "$off":
			return CVal{V: bv.Off, T: types.Typ[types.Int], Signed: true}
		}
	case IfaceV:
		switch name {
		case "$tag":
			return CVal{V: bv.Tag, T: types.Typ[types.Uint32]}
		case "$ref":
			return CVal{V: bv.Ref, G: &CType{Kind: "name", Name: "Ref"}}
		}
	}
	e.fail("field selection %s on %T in %s", name, base.V, exprString(x))
	return CVal{}
}

func hasField(t types.Type, name string) bool {
	st, ok := under(t).(*types.Struct)
	if !ok {
		return false
	}
	for i := 0; i < st.NumFields(); i++ {
		if st.Field(i).Name() == name {
			return true
		}
		if st.Field(i).Embedded() && hasField(derefT(st.Field(i).Type()), name) {
			return true
		}
	}
	return false
}

func derefT(t types.Type) types.Type {
	if p, ok := under(t).(*types.Pointer); ok {
		return p.Elem()
	}
	return t
}

// ghostField: per-object ghost state, e.g. c.$tr (declared with "ghostfield").
func (e *CEnv) ghostField(p PtrV, name string) CVal {
	key := "GF|" + typeKey(p.Elem) + "|" + name
	gt, ok := e.fx.eng.ghostTypes[typeKey(p.Elem)+"."+name]
	if !ok {
		e.fail("undeclared ghost field %s.%s", typeKey(p.Elem), name)
	}
	s, signed := e.sortOf(gt)
	fam := e.fx.family(e.st, key, ArrSort(RefSort, s))
	return CVal{V: e.fx.c.Select(fam, p.Ref), G: gt, Signed: signed}
}

func (e *CEnv) indexTerm(i CVal) *Term {
	c := e.fx.c
	if i.Untyped {
		return c.BVConst(i.Lit, 64)
	}
	t, ok := i.V.(*Term)
	if !ok || !t.Sort.IsBV() {
		e.fail("integer index expected")
	}
	if t.Sort.Width == 64 {
		return t
	}
	if i.Signed {
		return c.SignExt(t, 64)
	}
	return c.ZeroExt(t, 64)
}

func (e *CEnv) index(x *CExpr) CVal {
	c := e.fx.c
	base := e.Eval(x.Args[0])
	switch bv := base.V.(type) {
	case *Term:
		if mt, ok := mapTypeOf(base.T); ok && bv.Sort == RefSort {
			if !e.fx.mapModelled(mt) {
				e.fail("map type %s is not modelled", mt)
			}
			kv := e.Eval(x.Args[1])
			kv = e.typedKey(kv, mt.Key())
			k := e.fx.mapKeyTerm(e.st, mt.Key(), kv.V)
			ok, v := e.fx.mapRead(e.st, mt, bv, k)
			if _, nn := e.fx.eng.db.NonNilMaps[mapTypeKey(mt)]; nn {
				if pv, isP := v.(PtrV); isP && pv.Ref != nil {
					e.fx.assumeGlobal(c.Implies(ok, c.Not(c.Eq(pv.Ref, e.fx.nilRef()))))
				}
			}
			return e.goVal(e.fx.mergeVal(ok, v, e.fx.zeroVal(mt.Elem())), mt.Elem())
		}
		if !bv.Sort.IsArr() {
			e.fail("indexing a non-array in %s", exprString(x))
		}
		iv := e.Eval(x.Args[1])
		var it *Term
		if bv.Sort.Idx == BV(64) {
			it = e.indexTerm(iv)
		} else {
			iv = e.typed(iv, CVal{V: c.Fresh("dummy", bv.Sort.Idx)})
			it = e.asTerm(iv)
			if it.Sort != bv.Sort.Idx {
				e.fail("index sort mismatch in %s", exprString(x))
			}
		}
		r := CVal{V: c.Select(bv, it)}
		if base.T != nil {
			if at, ok := under(base.T).(*types.Array); ok {
				return e.goVal(r.V, at.Elem())
			}
		}
		if base.G != nil {
			r.G = ghostElemType(base.G)
			if r.G != nil {
				_, r.Signed = e.sortOf(r.G)
			}
		}
		return r
	case PtrV:
		// pointer to array object
		if at, ok := under(bv.Elem).(*types.Array); ok && (bv.Kind == PObj || bv.Kind == PView) {
			it := e.indexTerm(e.Eval(x.Args[1]))
			off := e.fx.bv64(0)
			if bv.Kind == PView {
				off = bv.Idx
			}
			return e.goVal(e.fx.loadElem(e.st, at.Elem(), bv.Ref, c.BVBin("bvadd", off, it)), at.Elem())
		}
	case SliceV:
		it := e.indexTerm(e.Eval(x.Args[1]))
		et := under(base.T).(*types.Slice).Elem()
		if isElemObj(et) {
			return e.objVal(PtrV{Kind: PObj, Ref: e.fx.elemRef(et, bv.Ref, c.BVBin("bvadd", bv.Off, it)), Elem: et})
		}
		return e.goVal(e.fx.loadElem(e.st, et, bv.Ref, c.BVBin("bvadd", bv.Off, it)), et)
	case StrV:
		it := e.indexTerm(e.Eval(x.Args[1]))
		return e.goVal(c.Select(bv.Arr, c.BVBin("bvadd", bv.Off, it)), types.Typ[types.Uint8])
	}
	e.fail("cannot index %T in %s", base.V, exprString(x))
	return CVal{}
}

func (e *CEnv) sliceExpr(x *CExpr) CVal {
	c := e.fx.c
	base := e.Eval(x.Args[0])
	lo := e.fx.bv64(0)
	if x.Args[1] != nil {
		lo = e.indexTerm(e.Eval(x.Args[1]))
	}
	switch bv := base.V.(type) {
	case SliceV:
		hi := bv.Len
		if x.Args[2] != nil {
			hi = e.indexTerm(e.Eval(x.Args[2]))
		}
		r := base
		r.V = SliceV{bv.Ref, c.BVBin("bvadd", bv.Off, lo), c.BVBin("bvsub", hi, lo), c.BVBin("bvsub", bv.Cap, lo)}
		return r
	case StrV:
		hi := bv.Len
		if x.Args[2] != nil {
			hi = e.indexTerm(e.Eval(x.Args[2]))
		}
		r := base
		r.V = StrV{bv.Arr, c.BVBin("bvadd", bv.Off, lo), c.BVBin("bvsub", hi, lo)}
		return r
	case PtrV:
		if at, ok := under(bv.Elem).(*types.Array); ok && bv.Kind == PObj {
			n := e.fx.bv64(at.Len())
			hi := n
			if x.Args[2] != nil {
				hi = e.indexTerm(e.Eval(x.Args[2]))
			}
			return e.goVal(SliceV{bv.Ref, lo, c.BVBin("bvsub", hi, lo), c.BVBin("bvsub", n, lo)}, types.NewSlice(at.Elem()))
		}
	}
	e.fail("cannot slice %T in %s", base.V, exprString(x))
	return CVal{}
}

func (e *CEnv) call(x *CExpr) CVal {
	c := e.fx.c
	intT := types.Typ[types.Int]
	switch x.Name {
	case "old":
		return e.evalOld(x.Args[0])
	case "len", "cap":
		v := e.Eval(x.Args[0])
		switch bv := v.V.(type) {
		case SliceV:
			if x.Name == "len" {
				return CVal{V: bv.Len, T: intT, Signed: true}
			}
			return CVal{V: bv.Cap, T: intT, Signed: true}
		case StrV:
			return CVal{V: bv.Len, T: intT, Signed: true}
		case PtrV:
			if at, ok := under(bv.Elem).(*types.Array); ok {
				return CVal{V: e.fx.bv64(at.Len()), T: intT, Signed: true}
			}
		case *Term:
			if v.T != nil {
				if at, ok := under(v.T).(*types.Array); ok {
					return CVal{V: e.fx.bv64(at.Len()), T: intT, Signed: true}
				}
			}
		}
		e.fail("len/cap of %T", v.V)
	case "add", "remove":
		s := e.Eval(x.Args[0])
		st, ok := s.V.(*Term)
		if !ok || !st.Sort.IsArr() {
			e.fail("%s: set expected", x.Name)
		}
		el := e.typed(e.Eval(x.Args[1]), CVal{V: c.Fresh("dummy", st.Sort.Idx), G: ghostElemOf(s)})
		r := s
		r.V = c.Store(st, el.V.(*Term), c.Bool(x.Name == "add"))
		return r
	case "empty":
		// empty(S): the empty set of S's type
		s := e.Eval(x.Args[0])
		r := s
		r.V = c.ConstArr(s.V.(*Term).Sort, c.False())
		return r
	case "update":
		// update(m, k, v): functional map/array update
		m := e.Eval(x.Args[0])
		mt := m.V.(*Term)
		var k CVal
		if mt.Sort.Idx == BV(64) {
			k = CVal{V: e.indexTerm(e.Eval(x.Args[1]))}
		} else {
			k = e.typed(e.Eval(x.Args[1]), CVal{V: c.Fresh("dummy", mt.Sort.Idx)})
		}
		v := e.typed(e.Eval(x.Args[2]), CVal{V: c.Fresh("dummy", mt.Sort.Elem), Signed: true})
		r := m
		r.V = c.Store(mt, e.asTerm(k), e.asTerm(v))
		return r
	case "uint8", "uint16", "uint32", "uint64", "int8", "int16", "int32", "int64", "int", "uint", "byte":
		v := e.Eval(x.Args[0])
		s, signed := e.sortOf(&CType{Kind: "name", Name: x.Name})
		gt := e.lookupBasic(x.Name)
		if v.Untyped {
			return CVal{V: c.BVConst(v.Lit, s.Width), T: gt, Signed: signed}
		}
		t, ok := v.V.(*Term)
		if !ok || !t.Sort.IsBV() {
			e.fail("conversion %s of non-integer", x.Name)
		}
		var r *Term
		if s.Width <= t.Sort.Width {
			r = c.Extract(s.Width-1, 0, t)
		} else if v.Signed {
			r = c.SignExt(t, s.Width)
		} else {
			r = c.ZeroExt(t, s.Width)
		}
		return CVal{V: r, T: gt, Signed: signed}
	case "bytes":
		// bytes(s): abstract byte string of a slice / string / array object
		v := e.Eval(x.Args[0])
		return CVal{V: e.fx.bytesOf(e.st, v), G: &CType{Kind: "name", Name: "Bytes"}}
	case "bytesEq":
		a, b := e.Eval(x.Args[0]), e.Eval(x.Args[1])
		return CVal{V: e.fx.bytesEq(e.st, a, b), T: types.Typ[types.Bool]}
	case "seqof":
		// position of the last call of F in this frame's call sequence (0: never called)
		key := flatName(x.Args[0])
		if v, ok := e.st.ghost["call|"+key+"|seq"].(*Term); ok {
			return CVal{V: v, T: intT, Signed: true}
		}
		return CVal{V: e.fx.bv64(0), T: intT, Signed: true}
	case "called", "callcount":
		key := flatName(x.Args[0])
		if x.Name == "called" {
			if v, ok := e.st.ghost["call|"+key+"|called"].(*Term); ok {
				return CVal{V: v, T: types.Typ[types.Bool]}
			}
			return CVal{V: c.False(), T: types.Typ[types.Bool]}
		}
		if v, ok := e.st.ghost["call|"+key+"|count"].(*Term); ok {
			return CVal{V: v, T: intT, Signed: true}
		}
		return CVal{V: e.fx.bv64(0), T: intT, Signed: true}
	case "resultof", "argof":
		// resultof(F, name) / argof(F, name): value at the LAST call of F on this path
		key := flatName(x.Args[0])
		if len(x.Args) != 2 || x.Args[1].Op != "ident" {
			e.fail("%s(F, name)", x.Name)
		}
		name := x.Args[1].Name
		fn := e.fx.eng.FuncByKey(key)
		fc := e.fx.eng.db.Funcs[key]
		var sig *types.Signature
		if fn != nil {
			sig = fn.Signature
		} else if parts := strings.Split(key, "."); len(parts) == 3 && e.fx.eng.pkgByName(parts[0]) != nil && ifaceMethodSig(e.fx.eng.pkgByName(parts[0]), parts[1], parts[2]) != nil {
			sig = ifaceMethodSig(e.fx.eng.pkgByName(parts[0]), parts[1], parts[2])
		} else if parts := strings.Split(key, "."); len(parts) == 3 && e.fx.eng.pkgByName(parts[0]) != nil && fieldFuncSig(e.fx.eng.pkgByName(parts[0]), parts[1], parts[2]) != nil {
			sig = fieldFuncSig(e.fx.eng.pkgByName(parts[0]), parts[1], parts[2])
		} else if i := strings.IndexByte(key, '.'); i > 0 {
			// package-level function variable
			if pkg := e.fx.eng.pkgByName(key[:i]); pkg != nil {
				if o := pkg.Scope().Lookup(key[i+1:]); o != nil {
					if sg, ok := o.Type().Underlying().(*types.Signature); ok {
						sig = sg
					}
				}
			}
		}
		slot, typ := "", types.Type(nil)
		if x.Name == "resultof" {
			idx := -1
			if fc != nil {
				for i, r := range fc.Results {
					if r == name {
						idx = i
					}
				}
			}
			if idx < 0 && strings.HasPrefix(name, "result") {
				fmt.Sscan(strings.TrimPrefix(name, "result"), &idx)
				if name == "result" {
					idx = 0
				}
			}
			if idx < 0 && sig != nil {
				for i := 0; i < sig.Results().Len(); i++ {
					if sig.Results().At(i).Name() == name {
						idx = i
					}
				}
			}
			if idx < 0 {
				e.fail("resultof(%s, %s): no such result", key, name)
			}
			slot = fmt.Sprintf("call|%s|res%d", key, idx)
			if sig != nil && idx < sig.Results().Len() {
				typ = sig.Results().At(idx).Type()
			}
		} else {
			idx := -1
			if fc != nil {
				if name == fc.Recv || name == "recv" {
					slot = "call|" + key + "|recv"
					if sig != nil && sig.Recv() != nil {
						typ = sig.Recv().Type()
					}
				}
				for i, p := range fc.Params {
					if p == name {
						idx = i
					}
				}
			}
			if slot == "" && idx < 0 && sig != nil {
				for i := 0; i < sig.Params().Len(); i++ {
					if sig.Params().At(i).Name() == name {
						idx = i
					}
				}
			}
			if slot == "" {
				if idx < 0 {
					e.fail("argof(%s, %s): no such parameter", key, name)
				}
				slot = fmt.Sprintf("call|%s|arg%d", key, idx)
				if sig != nil && idx < sig.Params().Len() {
					typ = sig.Params().At(idx).Type()
				}
			}
		}
		if typ == nil {
			e.fail("%s(%s, %s): function signature unknown", x.Name, key, name)
		}
		v, ok := e.st.ghost[slot]
		if !ok {
			v = e.fx.freshVal(typ, "nocall")
		}
		return e.goVal(v, typ)
	case "has":
		// has(m, k): key k is present in Go map m
		m := e.Eval(x.Args[0])
		mt, ok := mapTypeOf(m.T)
		mterm, ok2 := m.V.(*Term)
		if !ok || !ok2 || !e.fx.mapModelled(mt) {
			e.fail("has(): modelled Go map expected")
		}
		kv := e.typedKey(e.Eval(x.Args[1]), mt.Key())
		k := e.fx.mapKeyTerm(e.st, mt.Key(), kv.V)
		present, _ := e.fx.mapRead(e.st, mt, mterm, k)
		return CVal{V: present, T: types.Typ[types.Bool]}
	case "ref":
		v := e.Eval(x.Args[0])
		switch r := v.V.(type) {
		case SliceV:
			return CVal{V: r.Ref, G: &CType{Kind: "name", Name: "Ref"}}
		case IfaceV:
			return CVal{V: r.Ref, G: &CType{Kind: "name", Name: "Ref"}}
		case PtrV:
			return CVal{V: e.fx.ptrRef(r), G: &CType{Kind: "name", Name: "Ref"}}
		case *Term:
			if r.Sort == RefSort {
				return CVal{V: r, G: &CType{Kind: "name", Name: "Ref"}}
			}
		}
		e.fail("ref() of %T", v.V)
	case "rng":
		// rng(a, o, n): the abstract byte string of n bytes of array a starting at o (what bytes(s) denotes)
		a := e.Eval(x.Args[0])
		at, ok := a.V.(*Term)
		if !ok || at.Sort != byteArr {
			e.fail("rng(): byte array expected")
		}
		o := e.indexTerm(e.Eval(x.Args[1]))
		n := e.indexTerm(e.Eval(x.Args[2]))
		return CVal{V: c.App("rng", UnintSort("Bytes"), at, o, n), G: &CType{Kind: "name", Name: "Bytes"}}
	case "arr", "off":
		// arr(s), off(s): the byte array and start offset behind a string / []byte / byte-array object
		v := e.Eval(x.Args[0])
		a, o, _ := e.fx.seqParts(e.st, v)
		if x.Name == "arr" {
			return CVal{V: a, G: &CType{Kind: "name", Name: "bytearr"}}
		}
		return CVal{V: o, T: intT, Signed: true}
	case "same":
		// representation equality: every leaf equal (slices by header, arrays by content)
		a, b := e.Eval(x.Args[0]), e.Eval(x.Args[1])
		if a.ObjVal || b.ObjVal {
			a, b = e.loadObjVal(a), e.loadObjVal(b)
		}
		a, b = e.unify(a, b)
		t := a.T
		if t == nil {
			t = b.T
		}
		return CVal{V: e.fx.reprEq(t, a.V, b.V), T: types.Typ[types.Bool]}
	case "isnil":
		v := e.Eval(x.Args[0])
		return CVal{V: e.fx.isNil(v.V), T: types.Typ[types.Bool]}
	case "fresh":
		// fresh(x): the object (backing array) x refers to was allocated by this call.  Assumed at a call
		// site by introducing a new allocation; proved for the function itself by x being one of the
		// allocations made during its execution.  Positive positions of ensures clauses only.
		v := e.Eval(x.Args[0])
		var ref *Term
		switch p := v.V.(type) {
		case SliceV:
			ref = p.Ref
		case PtrV:
			ref = e.fx.ptrRef(p)
		case IfaceV:
			ref = p.Ref
		case *Term:
			if p.Sort == RefSort {
				ref = p
			}
		}
		if ref == nil {
			e.fail("fresh: reference-like value expected")
		}
		if e.assumeFresh {
			if len(e.fx.pendingFresh) == 0 {
				e.fail("fresh: no allocation reserved for this occurrence")
			}
			r := e.fx.pendingFresh[0]
			e.fx.pendingFresh = e.fx.pendingFresh[1:]
			// fresh means newly allocated AND not retained by anyone else: the object is private to the
			// caller until it lets it escape (its cells survive interference and unknown calls)
			switch p := v.V.(type) {
			case PtrV:
				if p.Kind == PObj {
					e.fx.private[r] = privInfo{t: p.Elem}
				} else if p.Kind == PBox {
					e.fx.private[r] = privInfo{t: p.Elem, box: true}
				}
			case SliceV:
				if v.T != nil {
					if sl, ok := under(v.T).(*types.Slice); ok {
						e.fx.private[r] = privInfo{t: sl.Elem(), backing: true}
					}
				}
			}
			return CVal{V: c.Eq(ref, r), T: types.Typ[types.Bool]}
		}
		var alts []*Term
		for _, r := range e.fx.freshRefs {
			alts = append(alts, c.Eq(ref, r))
		}
		return CVal{V: c.Or(alts...), T: types.Typ[types.Bool]}
	case "typeis":
		// typeis(iface, "pkg.Type")
		v := e.Eval(x.Args[0])
		iv, ok := v.V.(IfaceV)
		if !ok {
			e.fail("typeis: interface expected")
		}
		name, _ := strconv.Unquote(x.Args[1].Name)
		return CVal{V: c.Eq(iv.Tag, c.BVInt(int64(e.fx.eng.typeTagByName(name)), 32)), T: types.Typ[types.Bool]}
	case "held":
		// held(mu): lock ghost
		key := exprString(x.Args[0])
		h, ok := e.st.held[e.fx.lockKey(e, x.Args[0])]
		_ = key
		if !ok {
			h = c.False()
		}
		return CVal{V: h, T: types.Typ[types.Bool]}
	}
	// macro: untyped abbreviation expanded at the use site
	if mc, ok := e.fx.eng.db.Macros[x.Name]; ok {
		if len(x.Args) != len(mc.Params) {
			e.fail("macro %s: %d arguments expected", x.Name, len(mc.Params))
		}
		n := e.child()
		for i, p := range mc.Params {
			n.bound[p] = e.Eval(x.Args[i])
		}
		return n.Eval(mc.Body)
	}
	// spec function
	if sf, ok := e.fx.eng.db.Specs[x.Name]; ok {
		return e.applySpec(sf, x)
	}
	e.fail("unknown function %s in contract expression", x.Name)
	return CVal{}
}

func (e *CEnv) lookupBasic(name string) types.Type {
	if name == "byte" {
		return types.Typ[types.Uint8]
	}
	for _, b := range types.Typ {
		if b.Name() == name {
			return b
		}
	}
	return nil
}

func (e *CEnv) applySpec(sf *SpecFunc, x *CExpr) CVal {
	c := e.fx.c
	if len(x.Args) != len(sf.Params) {
		e.fail("spec %s: %d arguments expected", sf.Name, len(sf.Params))
	}
	var args []*Term
	for i, p := range sf.Params {
		ps, psigned := e.sortOf(p.Type)
		av := e.Eval(x.Args[i])
		av = e.typed(av, CVal{V: c.Fresh("dummy", ps), G: p.Type, Signed: psigned})
		var t *Term
		switch v := av.V.(type) {
		case *Term:
			t = v
		case PtrV:
			if v.Kind == PObj && isArrayT(v.Elem) && ps.IsArr() {
				t = e.fx.loadObj(e.st, v.Elem, v.Ref).(*Term)
			} else {
				t = e.fx.ptrRef(v)
			}
		default:
			e.fail("spec %s: argument %d (%s) has unsupported shape %T", sf.Name, i, exprString(x.Args[i]), av.V)
		}
		if t.Sort != ps {
			e.fail("spec %s: argument %d (%s) has sort %s, expected %s", sf.Name, i, exprString(x.Args[i]), t.Sort, ps)
		}
		args = append(args, t)
	}
	rs, rsigned := e.sortOf(sf.Ret)
	e.fx.eng.defineSpec(e, sf)
	r := CVal{V: c.App("spec."+sf.Name, rs, args...), G: sf.Ret, Signed: rsigned}
	if rs == BoolSort {
		r.T = types.Typ[types.Bool]
	}
	return r
}

// ---- helpers on FnExec used by contract evaluation

func (fx *FnExec) isNil(v Val) *Term {
	c := fx.c
	switch x := v.(type) {
	case PtrV:
		if x.Ref == nil {
			return c.False()
		}
		return c.Eq(x.Ref, fx.nilRef())
	case IfaceV:
		return c.Eq(x.Tag, c.BVInt(0, 32))
	case SliceV:
		return c.Eq(x.Ref, fx.nilRef())
	case *Term:
		if x.Sort == RefSort {
			return c.Eq(x, fx.nilRef())
		}
	}
	fx.oos("isnil of %T", v)
	return nil
}

// bytesOf abstracts a byte sequence to a term of sort Bytes: rng(array, off, len).
func (fx *FnExec) bytesOf(st *State, v CVal) *Term {
	if st != nil && st.pc != nil {
		fx.curPC = st.pc
	}
	bs := UnintSort("Bytes")
	byteT := types.Typ[types.Uint8]
	switch x := v.V.(type) {
	case SliceV:
		return fx.rngTermRef(fx.elemArray(st, byteT, x.Ref), x.Off, x.Len, x.Ref)
	case StrV:
		return fx.rngTerm(x.Arr, x.Off, x.Len)
	case PtrV:
		if at, ok := under(x.Elem).(*types.Array); ok && x.Kind == PObj {
			return fx.rngTermRef(fx.elemArray(st, at.Elem(), x.Ref), fx.bv64(0), fx.bv64(at.Len()), x.Ref)
		}
	case *Term:
		if x.Sort == byteArr && v.T != nil {
			if at, ok := under(v.T).(*types.Array); ok {
				return fx.rngTerm(x, fx.bv64(0), fx.bv64(at.Len()))
			}
		}
		if x.Sort == bs {
			return x
		}
	}
	fx.oos("bytes() of %T", v.V)
	return nil
}

func (fx *FnExec) seqParts(st *State, v CVal) (arr, off, ln *Term) {
	byteT := types.Typ[types.Uint8]
	switch x := v.V.(type) {
	case SliceV:
		return fx.elemArray(st, byteT, x.Ref), x.Off, x.Len
	case StrV:
		return x.Arr, x.Off, x.Len
	case PtrV:
		if at, ok := under(x.Elem).(*types.Array); ok && x.Kind == PObj {
			return fx.elemArray(st, at.Elem(), x.Ref), fx.bv64(0), fx.bv64(at.Len())
		}
	case *Term:
		if x.Sort == byteArr && v.T != nil {
			if at, ok := under(v.T).(*types.Array); ok {
				return x, fx.bv64(0), fx.bv64(at.Len())
			}
		}
	}
	fx.oos("byte sequence expected, got %T", v.V)
	return nil, nil, nil
}

// bytesEq: equal length and equal contents.
func (fx *FnExec) bytesEq(st *State, a, b CVal) *Term {
	c := fx.c
	aa, ao, al := fx.seqParts(st, a)
	ba, bo, bl := fx.seqParts(st, b)
	if al.Op == "bv" && al.Val.IsInt64() && al.Val.Int64() <= 64 {
		parts := []*Term{c.Eq(al, bl)}
		for k := int64(0); k < al.Val.Int64(); k++ {
			parts = append(parts, c.Eq(c.Select(aa, c.BVBin("bvadd", ao, fx.bv64(k))), c.Select(ba, c.BVBin("bvadd", bo, fx.bv64(k)))))
		}
		return c.And(parts...)
	}
	k := c.BoundVarNamed(fmt.Sprintf("k@beq.%d.%d.%d.%d", aa.ID, ao.ID, ba.ID, bo.ID), BV(64))
	return c.And(c.Eq(al, bl), c.Forall([]*Term{k}, c.Implies(c.BVCmp("bvult", k, al), c.Eq(c.Select(aa, c.BVBin("bvadd", ao, k)), c.Select(ba, c.BVBin("bvadd", bo, k))))))
}

// localByName finds the Alloc of the source variable `name` visible at pos.
func (fx *FnExec) localByName(fr *frame, name string, pos token.Pos) *ssa.Alloc {
	fn := fr.fn
	if fn.Pkg == nil {
		return nil
	}
	scope := fn.Pkg.Pkg.Scope().Innermost(pos)
	if scope == nil {
		return nil
	}
	_, obj := scope.LookupParent(name, pos)
	if obj == nil {
		return nil
	}
	if obj.Parent() == fn.Pkg.Pkg.Scope() || obj.Parent() == types.Universe {
		return nil
	}
	var best *ssa.Alloc
	for _, b := range fn.Blocks {
		for _, ins := range b.Instrs {
			if a, ok := ins.(*ssa.Alloc); ok && a.Comment == name && a.Pos() == obj.Pos() {
				best = a
			}
		}
	}
	if best == nil {
		// parameters and named results are spilled to allocs whose Pos is the parameter's
		for _, b := range fn.Blocks {
			for _, ins := range b.Instrs {
				if a, ok := ins.(*ssa.Alloc); ok && a.Comment == name {
					if best == nil {
						best = a
					}
				}
			}
		}
	}
	return best
}

// asTerm gives the single SMT term of a scalar contract value (pointers become Refs).
func (e *CEnv) asTerm(v CVal) *Term {
	switch x := v.V.(type) {
	case *Term:
		return x
	case PtrV:
		return e.fx.ptrRef(x)
	}
	e.fail("scalar value expected, got %T", v.V)
	return nil
}

func mapTypeOf(t types.Type) (*types.Map, bool) {
	if t == nil {
		return nil, false
	}
	mt, ok := under(t).(*types.Map)
	return mt, ok
}

// typedKey gives untyped literals the key type.
func (e *CEnv) typedKey(v CVal, kt types.Type) CVal {
	if v.Untyped && v.Lit != nil {
		if w, s, ok := intWidth(kt); ok {
			return CVal{V: e.fx.c.BVConst(v.Lit, w), T: kt, Signed: s}
		}
	}
	return v
}

// loadObjVal turns a pointer standing for an object value into that value.
func (e *CEnv) loadObjVal(v CVal) CVal {
	if !v.ObjVal {
		return v
	}
	p := v.V.(PtrV)
	return CVal{V: e.fx.loadObj(e.st, p.Elem, p.Ref), T: p.Elem}
}

// goTypeOf maps a ghost type expression to a Go type when there is an obvious one
// (so that ==, len and map keys on quantified variables follow Go's semantics).
func (e *CEnv) goTypeOf(t *CType) types.Type {
	switch t.Kind {
	case "name":
		if b := e.lookupBasic(t.Name); b != nil {
			return b
		}
		return e.lookupGoType(t.Name)
	case "array":
		if et := e.goTypeOf(t.Elem); et != nil {
			return types.NewArray(et, t.N)
		}
	case "ptr":
		if et := e.goTypeOf(t.Elem); et != nil {
			return types.NewPointer(et)
		}
	}
	return nil
}

// ifaceMethodSig finds the signature of method m of the named interface type pkg.T.
func ifaceMethodSig(pkg *types.Package, tname, m string) *types.Signature {
	o := pkg.Scope().Lookup(tname)
	if o == nil {
		return nil
	}
	it, ok := o.Type().Underlying().(*types.Interface)
	if !ok {
		return nil
	}
	for i := 0; i < it.NumMethods(); i++ {
		if it.Method(i).Name() == m {
			return it.Method(i).Type().(*types.Signature)
		}
	}
	return nil
}

// fieldFuncSig: signature of the function-typed field f of struct type pkg.T.
func fieldFuncSig(pkg *types.Package, tname, f string) *types.Signature {
	o := pkg.Scope().Lookup(tname)
	if o == nil {
		return nil
	}
	st, ok := o.Type().Underlying().(*types.Struct)
	if !ok {
		return nil
	}
	for i := 0; i < st.NumFields(); i++ {
		if st.Field(i).Name() == f {
			if sg, ok := st.Field(i).Type().Underlying().(*types.Signature); ok {
				return sg
			}
		}
	}
	return nil
}

// ---- abstract byte strings rng(array, off, len) and their stability under writes elsewhere

type rngRec struct{ arr, off, ln, ref *Term }

// rngTerm builds rng(arr, off, len) and remembers it, so that a later write to the array
// outside [off, off+len) can carry the abstract byte string over to the updated array.
func (fx *FnExec) rngTerm(arr, off, ln *Term) *Term {
	return fx.rngTermRef(arr, off, ln, nil)
}

// rngTermRef also remembers which object's array this is (needed to carry the byte string across joins)
func (fx *FnExec) rngTermRef(arr, off, ln, ref *Term) *Term {
	t := fx.c.App("rng", UnintSort("Bytes"), arr, off, ln)
	if !t.open && !fx.noAssume {
		if fx.rngSeen == nil {
			fx.rngSeen = map[*Term]bool{}
		}
		if !fx.rngSeen[t] {
			fx.rngSeen[t] = true
			fx.rngs = append(fx.rngs, rngRec{arr, off, ln, ref})
			fx.rngBackward(t, arr, off, ln, ref)
		}
	}
	return t
}

type arrOrigin struct {
	// copy image: new[doff+k] = src[soff+k] for k < n, elsewhere = old
	src, soff, srcRef *Term
	// common: the array before the write and the written window [doff, doff+n)
	old, doff, n *Term
}

// rngBackward links a newly requested byte string to the arrays its array was derived from (demand driven):
// through a join (ite of heap families), through a copy (the copied window denotes the source's bytes) and
// through any write elsewhere (bytes outside the written window are those of the previous array).
func (fx *FnExec) rngBackward(t, arr, off, ln, ref *Term) {
	if fx.rngDepth == 0 {
		fx.rngBudget = 160 // expansions per demanded byte string (the possibly-aliased case doubles the chain)
	}
	if fx.rngDepth > 14 || fx.rngBudget <= 0 {
		return
	}
	fx.rngBudget--
	fx.rngDepth++
	defer func() { fx.rngDepth-- }()
	c := fx.c
	if arr.Op == "ite" {
		// a conditional array (the simplifier distributes a read of a joined heap family over the join)
		fx.assumeGlobal(c.Eq(t, c.Ite(arr.Args[0], fx.rngTermRef(arr.Args[1], off, ln, ref), fx.rngTermRef(arr.Args[2], off, ln, ref))))
		return
	}
	if arr.Op == "select" && arr.Args[0].Op == "ite" {
		fam := arr.Args[0]
		idx := arr.Args[1]
		a1 := c.Select(fam.Args[1], idx)
		a0 := c.Select(fam.Args[2], idx)
		fx.assumeGlobal(c.Eq(t, c.Ite(fam.Args[0], fx.rngTermRef(a1, off, ln, idx), fx.rngTermRef(a0, off, ln, idx))))
		return
	}
	if arr.Op == "select" && arr.Args[0].Op == "store" && arr.Args[0].Sort.Idx == RefSort {
		// the array of object idx read through an update of ANOTHER object's array
		fam := arr.Args[0]
		idx := arr.Args[1]
		same := c.Eq(fam.Args[1], idx)
		ne := c.Not(same)
		if same.IsTrue() {
			fx.assumeGlobal(c.Eq(t, fx.rngTermRef(fam.Args[2], off, ln, idx)))
			return
		}
		inner := c.Select(fam.Args[0], idx)
		eq := c.Eq(t, fx.rngTermRef(inner, off, ln, idx))
		fx.assumeGlobal(c.Implies(ne, eq))
		if _, partial := fx.arrOrigins[fam.Args[2]]; partial && fam.Args[2].Sort == byteArr && fx.followAliases {
			// the two references may be the same object (e.g. a tag that lies in the ciphertext's array) and the
			// stored array is a PARTIAL update of that object's previous contents (a copy or a range frame): the
			// byte string is then read from the stored array, whose own origin is followed in turn
			eq2 := c.Eq(t, fx.rngTermRef(fam.Args[2], off, ln, idx))
			fx.assumeGlobal(c.Implies(same, eq2))
		}
		return
	}
	o, ok := fx.arrOrigins[arr]
	if !ok {
		return
	}
	end := c.BVBin("bvadd", off, ln)
	wend := c.BVBin("bvadd", o.doff, o.n)
	if o.src != nil {
		inside := c.And(c.BVCmp("bvsle", o.doff, off), c.BVCmp("bvsle", end, wend))
		srcOff := c.BVBin("bvadd", o.soff, c.BVBin("bvsub", off, o.doff))
		eq := c.Eq(t, fx.rngTermRef(o.src, srcOff, ln, o.srcRef))
		fx.assumeGlobal(c.Implies(inside, eq))
	}
	if o.old != nil {
		outside := c.Or(c.BVCmp("bvsle", end, o.doff), c.BVCmp("bvsle", wend, off))
		eq := c.Eq(t, fx.rngTermRef(o.old, off, ln, ref))
		fx.assumeGlobal(c.Implies(outside, eq))
	}
}

// arrayUpdated: newArr is oldArr with only [wlo, wlo+wlen) possibly changed.  Every remembered
// byte string over oldArr that lies outside the written region denotes the same byte string over newArr.
func (fx *FnExec) arrayUpdated(oldArr, newArr, wlo, wlen *Term) {
	if oldArr == newArr || len(fx.rngs) == 0 || oldArr.Sort != byteArr {
		return
	}
	c := fx.c
	n := len(fx.rngs)
	added := 0
	for i := 0; i < n && added < 64; i++ {
		r := fx.rngs[i]
		if r.arr != oldArr {
			continue
		}
		nt := c.App("rng", UnintSort("Bytes"), newArr, r.off, r.ln)
		ot := c.App("rng", UnintSort("Bytes"), oldArr, r.off, r.ln)
		disjoint := c.Or(c.BVCmp("bvsle", c.BVBin("bvadd", r.off, r.ln), wlo), c.BVCmp("bvsle", c.BVBin("bvadd", wlo, wlen), r.off))
		if fx.curPC != nil && fx.provedNow(disjoint) {
			// disjointness already follows from the path condition (decided by a small side query over the
			// ground facts): state the consequence directly, so that the final obligation needs no
			// bit-vector arithmetic for it
			fx.assumeGlobal(c.Implies(fx.curPC, c.Eq(nt, ot)))
		}
		fx.assumeGlobal(c.Implies(disjoint, c.Eq(nt, ot)))
		if !fx.rngSeen[nt] {
			fx.rngSeen[nt] = true
			fx.rngs = append(fx.rngs, rngRec{newArr, r.off, r.ln, r.ref})
			added++
		}
	}
}

// provedNow: does the current path condition together with the quantifier-free facts collected so far
// entail g?  Linear facts over non-negative length atoms are decided syntactically; otherwise one
// short z3 query is made (results cached).  A "no" only means the fact is left conditional.
func (fx *FnExec) provedNow(g *Term) bool {
	if g.IsTrue() {
		return true
	}
	if fx.sideCache == nil {
		fx.sideCache = map[[2]int]bool{}
	}
	key := [2]int{fx.curPC.ID, g.ID}
	if v, ok := fx.sideCache[key]; ok {
		return v
	}
	var ground []*Term
	if fx.sideMemo == nil {
		fx.sideMemo = map[*Term]bool{}
	}
	for _, a := range fx.assumes {
		if !containsQuant(a, fx.sideMemo) {
			ground = append(ground, a)
		}
	}
	script := fx.c.Query(ground, fx.c.Implies(fx.curPC, g), nil, 2000)
	r := quickUnsat(script, 2000)
	fx.sideCache[key] = r
	fx.sideQueries++
	return r
}

func isSpecApp(t *Term) bool {
	return t.Op == "app" && strings.HasPrefix(t.Name, "spec.")
}
