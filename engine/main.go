package main

import (
	"fmt"
	"os"
)

func main() {
	if len(os.Args) < 2 {
		fmt.Fprintln(os.Stderr, "usage: hopvc check <property> [--tier quick|thorough] | func <pattern> <key> | selftest")
		os.Exit(2)
	}
	switch os.Args[1] {
	case "func":
		os.Exit(cmdFunc(os.Args[2:]))
	case "check":
		os.Exit(cmdCheck(os.Args[2:]))
	default:
		fmt.Fprintln(os.Stderr, "unknown command", os.Args[1])
		os.Exit(2)
	}
}
