package main

// SMT term DAG: hash-consed, lightly simplified, printed as SMT-LIB2 with one
// define-fun per shared closed node so that formula size stays linear.

import (
	"fmt"
	"math/big"
	"os"
	"sort"
	"strings"
	"sync"
)

type SortKind int

const (
	SBool SortKind = iota
	SBV
	SArr
	SUnint
)

type Sort struct {
	Kind  SortKind
	Width int
	Idx   *Sort
	Elem  *Sort
	Name  string
}

var (
	sortCache = map[string]*Sort{}
	sortMu    sync.Mutex
)

func internSort(s *Sort) *Sort {
	k := s.String()
	sortMu.Lock()
	defer sortMu.Unlock()
	if c, ok := sortCache[k]; ok {
		return c
	}
	sortCache[k] = s
	return s
}

func (s *Sort) String() string {
	switch s.Kind {
	case SBool:
		return "Bool"
	case SBV:
		return fmt.Sprintf("(_ BitVec %d)", s.Width)
	case SArr:
		return fmt.Sprintf("(Array %s %s)", s.Idx, s.Elem)
	default:
		return s.Name
	}
}

var (
	BoolSort = internSort(&Sort{Kind: SBool})
	RefSort  = internSort(&Sort{Kind: SUnint, Name: "Ref"})
)

func BV(w int) *Sort           { return internSort(&Sort{Kind: SBV, Width: w}) }
func ArrSort(i, e *Sort) *Sort { return internSort(&Sort{Kind: SArr, Idx: i, Elem: e}) }
func UnintSort(n string) *Sort { return internSort(&Sort{Kind: SUnint, Name: n}) }
func (s *Sort) IsBV() bool     { return s.Kind == SBV }
func (s *Sort) IsArr() bool    { return s.Kind == SArr }
func (s *Sort) IsBool() bool   { return s.Kind == SBool }

type Term struct {
	Op    string // "const" (named constant / variable), "bv", "true", "false", "app" (UF application) or an SMT operator
	Name  string // const/bound var/UF name
	Args  []*Term
	Sort  *Sort
	Val   *big.Int // for "bv"
	ID    int
	Bound []*Term // for quantifiers: bound variables
	Pats  [][]*Term
	open  bool // contains a bound variable
}

type Ctx struct {
	tab       map[string]*Term
	nextID    int
	decls     map[string]string // name -> declaration line (consts and funs)
	declOrder []string
	fresh     map[string]int
	defs      []string        // define-fun / define-fun-rec / axioms text emitted before everything
	defined   map[string]bool // names defined in defs (not to be declared)
	defUses   map[string]bool // declared symbols used by defs
	// distinct: pairs of terms known to differ in the query being built (the negative case of a contract
	// `split a == b`); consulted by the read-over-write rule of Select.  Set and cleared by caseQueries only.
	distinct map[[2]*Term]bool
	symCache map[*Term]*symInfo // pruneAxioms: symbols per assumption
	noPrune  bool               // set while the scripts of a cover (vacuity) query are built: those keep every axiom
}

func NewCtx() *Ctx {
	return &Ctx{tab: map[string]*Term{}, decls: map[string]string{}, fresh: map[string]int{}, defined: map[string]bool{}, defUses: map[string]bool{}}
}

func (c *Ctx) intern(t *Term) *Term {
	var sb strings.Builder
	sb.WriteString(t.Op)
	sb.WriteByte('|')
	sb.WriteString(t.Name)
	sb.WriteByte('|')
	if t.Val != nil {
		sb.WriteString(t.Val.String())
	}
	sb.WriteByte('|')
	sb.WriteString(t.Sort.String())
	for _, a := range t.Args {
		fmt.Fprintf(&sb, ",%d", a.ID)
	}
	for _, b := range t.Bound {
		fmt.Fprintf(&sb, ";%d", b.ID)
	}
	for _, p := range t.Pats {
		sb.WriteString("/")
		for _, x := range p {
			fmt.Fprintf(&sb, "p%d", x.ID)
		}
	}
	k := sb.String()
	if e, ok := c.tab[k]; ok {
		return e
	}
	c.nextID++
	t.ID = c.nextID
	for _, a := range t.Args {
		if a.open {
			t.open = true
		}
	}
	if t.Op == "bound" {
		t.open = true
	}
	if t.Op == "forall" || t.Op == "exists" {
		// closed iff all free bound vars in body are among Bound; we
		// conservatively recompute
		t.open = hasFreeBound(t.Args[0], t.Bound)
	}
	c.tab[k] = t
	return t
}

func hasFreeBound(t *Term, bound []*Term) bool {
	if !t.open {
		return false
	}
	seen := map[int]bool{}
	var rec func(t *Term, bs []*Term) bool
	rec = func(t *Term, bs []*Term) bool {
		if !t.open {
			return false
		}
		if t.Op == "bound" {
			for _, b := range bs {
				if b == t {
					return false
				}
			}
			return true
		}
		if len(bs) == len(bound) && seen[t.ID] {
			return false
		}
		nbs := bs
		if t.Op == "forall" || t.Op == "exists" {
			nbs = append(append([]*Term{}, bs...), t.Bound...)
		}
		for _, a := range t.Args {
			if rec(a, nbs) {
				return true
			}
		}
		if len(bs) == len(bound) {
			seen[t.ID] = true
		}
		return false
	}
	return rec(t, bound)
}

// ---- declarations

func (c *Ctx) Const(name string, s *Sort) *Term {
	if _, ok := c.decls[name]; !ok {
		c.decls[name] = fmt.Sprintf("(declare-fun %s () %s)", smtName(name), s)
		c.declOrder = append(c.declOrder, name)
	}
	return c.intern(&Term{Op: "const", Name: name, Sort: s})
}

func (c *Ctx) Fresh(prefix string, s *Sort) *Term {
	c.fresh[prefix]++
	return c.Const(fmt.Sprintf("%s!%d", prefix, c.fresh[prefix]), s)
}

// BoundVarNamed interns a bound variable by name: alpha-equivalent quantified formulas built
// from the same source expression become the identical term.
func (c *Ctx) BoundVarNamed(name string, s *Sort) *Term {
	return c.intern(&Term{Op: "bound", Name: name, Sort: s})
}

func (c *Ctx) BoundVar(name string, s *Sort) *Term {
	c.fresh["$b"]++
	return c.intern(&Term{Op: "bound", Name: fmt.Sprintf("%s$%d", name, c.fresh["$b"]), Sort: s})
}

func (c *Ctx) DeclareFun(name string, args []*Sort, ret *Sort) {
	if _, ok := c.decls[name]; ok {
		return
	}
	var as []string
	for _, a := range args {
		as = append(as, a.String())
	}
	c.decls[name] = fmt.Sprintf("(declare-fun %s (%s) %s)", smtName(name), strings.Join(as, " "), ret)
	c.declOrder = append(c.declOrder, name)
}

func (c *Ctx) App(name string, ret *Sort, args ...*Term) *Term {
	if _, ok := c.decls[name]; !ok && !c.defined[name] {
		var as []*Sort
		for _, a := range args {
			as = append(as, a.Sort)
		}
		c.DeclareFun(name, as, ret)
	}
	return c.intern(&Term{Op: "app", Name: name, Args: args, Sort: ret})
}

func smtName(n string) string {
	ok := true
	for _, r := range n {
		if !(r >= 'a' && r <= 'z' || r >= 'A' && r <= 'Z' || r >= '0' && r <= '9' || r == '_' || r == '!' || r == '$' || r == '.') {
			ok = false
			break
		}
	}
	if ok && n != "" && !(n[0] >= '0' && n[0] <= '9') {
		return n
	}
	return "|" + strings.ReplaceAll(n, "|", "!") + "|"
}

// ---- constructors

func (c *Ctx) True() *Term  { return c.intern(&Term{Op: "true", Sort: BoolSort}) }
func (c *Ctx) False() *Term { return c.intern(&Term{Op: "false", Sort: BoolSort}) }
func (c *Ctx) Bool(b bool) *Term {
	if b {
		return c.True()
	}
	return c.False()
}

func (c *Ctx) BVConst(v *big.Int, w int) *Term {
	m := new(big.Int).Lsh(big.NewInt(1), uint(w))
	x := new(big.Int).Mod(v, m)
	return c.intern(&Term{Op: "bv", Val: x, Sort: BV(w)})
}
func (c *Ctx) BVInt(v int64, w int) *Term { return c.BVConst(big.NewInt(v), w) }

func (t *Term) IsTrue() bool    { return t.Op == "true" }
func (t *Term) IsFalse() bool   { return t.Op == "false" }
func (t *Term) IsConstBV() bool { return t.Op == "bv" }

func (t *Term) SignedVal() *big.Int {
	w := t.Sort.Width
	v := new(big.Int).Set(t.Val)
	if v.Bit(w-1) == 1 {
		v.Sub(v, new(big.Int).Lsh(big.NewInt(1), uint(w)))
	}
	return v
}

func (c *Ctx) mk(op string, s *Sort, args ...*Term) *Term {
	return c.intern(&Term{Op: op, Args: args, Sort: s})
}

func (c *Ctx) Not(a *Term) *Term {
	if a.IsTrue() {
		return c.False()
	}
	if a.IsFalse() {
		return c.True()
	}
	if a.Op == "not" {
		return a.Args[0]
	}
	return c.mk("not", BoolSort, a)
}

func (c *Ctx) And(as ...*Term) *Term {
	var out []*Term
	seen := map[int]bool{}
	for _, a := range as {
		if a.IsFalse() {
			return c.False()
		}
		if a.IsTrue() || seen[a.ID] {
			continue
		}
		if a.Op == "and" {
			for _, x := range a.Args {
				if !seen[x.ID] {
					seen[x.ID] = true
					out = append(out, x)
				}
			}
			continue
		}
		seen[a.ID] = true
		out = append(out, a)
	}
	for _, a := range out {
		if a.Op == "not" && seen[a.Args[0].ID] {
			return c.False()
		}
	}
	if len(out) == 0 {
		return c.True()
	}
	if len(out) == 1 {
		return out[0]
	}
	return c.mk("and", BoolSort, out...)
}

func (c *Ctx) Or(as ...*Term) *Term {
	var out []*Term
	seen := map[int]bool{}
	for _, a := range as {
		if a.IsTrue() {
			return c.True()
		}
		if a.IsFalse() || seen[a.ID] {
			continue
		}
		if a.Op == "or" {
			for _, x := range a.Args {
				if !seen[x.ID] {
					seen[x.ID] = true
					out = append(out, x)
				}
			}
			continue
		}
		seen[a.ID] = true
		out = append(out, a)
	}
	for _, a := range out {
		if a.Op == "not" && seen[a.Args[0].ID] {
			return c.True()
		}
	}
	if len(out) == 0 {
		return c.False()
	}
	if len(out) == 1 {
		return out[0]
	}
	return c.mk("or", BoolSort, out...)
}

func (c *Ctx) Implies(a, b *Term) *Term {
	if a.IsTrue() {
		return b
	}
	if a.IsFalse() || b.IsTrue() {
		return c.True()
	}
	if b.IsFalse() {
		return c.Not(a)
	}
	if a == b {
		return c.True()
	}
	return c.mk("=>", BoolSort, a, b)
}

func (c *Ctx) Iff(a, b *Term) *Term { return c.Eq(a, b) }

func (c *Ctx) Eq(a, b *Term) *Term {
	if a.Sort != b.Sort {
		panic(fmt.Sprintf("Eq sort mismatch: %s vs %s (%s, %s)", a.Sort, b.Sort, c.Show(a), c.Show(b)))
	}
	if a == b {
		return c.True()
	}
	if a.Op == "bv" && b.Op == "bv" {
		return c.Bool(a.Val.Cmp(b.Val) == 0)
	}
	if a.Sort.IsBool() {
		if a.IsTrue() {
			return b
		}
		if b.IsTrue() {
			return a
		}
		if a.IsFalse() {
			return c.Not(b)
		}
		if b.IsFalse() {
			return c.Not(a)
		}
	}
	if a.ID > b.ID {
		a, b = b, a
	}
	return c.mk("=", BoolSort, a, b)
}

func (c *Ctx) Distinct(as ...*Term) *Term {
	if len(as) < 2 {
		return c.True()
	}
	return c.mk("distinct", BoolSort, as...)
}

func (c *Ctx) Ite(cond, a, b *Term) *Term {
	if a.Sort != b.Sort {
		panic(fmt.Sprintf("Ite sort mismatch: %s vs %s", a.Sort, b.Sort))
	}
	if cond.IsTrue() {
		return a
	}
	if cond.IsFalse() {
		return b
	}
	if a == b {
		return a
	}
	if a.Sort.IsBool() {
		if a.IsTrue() && b.IsFalse() {
			return cond
		}
		if a.IsFalse() && b.IsTrue() {
			return c.Not(cond)
		}
	}
	return c.mk("ite", a.Sort, cond, a, b)
}

func mask(w int) *big.Int {
	m := new(big.Int).Lsh(big.NewInt(1), uint(w))
	return m.Sub(m, big.NewInt(1))
}

// BVBin builds a binary bit-vector operation with constant folding.
func (c *Ctx) BVBin(op string, a, b *Term) *Term {
	if a.Sort != b.Sort {
		panic(fmt.Sprintf("BVBin %s sort mismatch: %s vs %s (%s ; %s)", op, a.Sort, b.Sort, c.Show(a), c.Show(b)))
	}
	w := a.Sort.Width
	if a.Op == "bv" && b.Op == "bv" {
		x, y := a.Val, b.Val
		r := new(big.Int)
		ok := true
		switch op {
		case "bvadd":
			r.Add(x, y)
		case "bvsub":
			r.Sub(x, y)
		case "bvmul":
			r.Mul(x, y)
		case "bvand":
			r.And(x, y)
		case "bvor":
			r.Or(x, y)
		case "bvxor":
			r.Xor(x, y)
		case "bvshl":
			if y.Cmp(big.NewInt(int64(w))) >= 0 {
				r.SetInt64(0)
			} else {
				r.Lsh(x, uint(y.Int64()))
			}
		case "bvlshr":
			if y.Cmp(big.NewInt(int64(w))) >= 0 {
				r.SetInt64(0)
			} else {
				r.Rsh(x, uint(y.Int64()))
			}
		case "bvudiv":
			if y.Sign() == 0 {
				ok = false
			} else {
				r.Div(x, y)
			}
		case "bvurem":
			if y.Sign() == 0 {
				ok = false
			} else {
				r.Mod(x, y)
			}
		default:
			ok = false
		}
		if ok {
			return c.BVConst(r, w)
		}
	}
	isZero := func(t *Term) bool { return t.Op == "bv" && t.Val.Sign() == 0 }
	switch op {
	case "bvadd", "bvor", "bvxor":
		if isZero(a) {
			return b
		}
		if isZero(b) {
			return a
		}
	case "bvsub", "bvshl", "bvlshr", "bvashr":
		if isZero(b) {
			return a
		}
	case "bvand", "bvmul":
		if isZero(a) {
			return a
		}
		if isZero(b) {
			return b
		}
	}
	if op == "bvadd" || op == "bvmul" || op == "bvand" || op == "bvor" || op == "bvxor" {
		if a.ID > b.ID {
			a, b = b, a
		}
	}
	// (x + c1) + c2  ->  x + (c1+c2)
	if op == "bvadd" {
		if b.Op == "bv" && a.Op == "bvadd" {
			if a.Args[1].Op == "bv" {
				return c.BVBin("bvadd", a.Args[0], c.BVConst(new(big.Int).Add(a.Args[1].Val, b.Val), w))
			}
			if a.Args[0].Op == "bv" {
				return c.BVBin("bvadd", a.Args[1], c.BVConst(new(big.Int).Add(a.Args[0].Val, b.Val), w))
			}
		}
		if a.Op == "bv" && b.Op == "bvadd" {
			if b.Args[1].Op == "bv" {
				return c.BVBin("bvadd", b.Args[0], c.BVConst(new(big.Int).Add(b.Args[1].Val, a.Val), w))
			}
			if b.Args[0].Op == "bv" {
				return c.BVBin("bvadd", b.Args[1], c.BVConst(new(big.Int).Add(b.Args[0].Val, a.Val), w))
			}
		}
	}
	if op == "bvsub" && b.Op == "bv" {
		return c.BVBin("bvadd", a, c.BVConst(new(big.Int).Neg(b.Val), w))
	}
	return c.mk(op, a.Sort, a, b)
}

func (c *Ctx) BVNot(a *Term) *Term {
	if a.Op == "bv" {
		return c.BVConst(new(big.Int).Xor(a.Val, mask(a.Sort.Width)), a.Sort.Width)
	}
	return c.mk("bvnot", a.Sort, a)
}
func (c *Ctx) BVNeg(a *Term) *Term {
	if a.Op == "bv" {
		return c.BVConst(new(big.Int).Neg(a.Val), a.Sort.Width)
	}
	return c.mk("bvneg", a.Sort, a)
}

// BVCmp: op in bvult bvule bvugt bvuge bvslt bvsle bvsgt bvsge
func (c *Ctx) BVCmp(op string, a, b *Term) *Term {
	if a.Sort != b.Sort {
		panic(fmt.Sprintf("BVCmp %s sort mismatch: %s vs %s (%s ; %s)", op, a.Sort, b.Sort, c.Show(a), c.Show(b)))
	}
	if a.Op == "bv" && b.Op == "bv" {
		var x, y *big.Int
		if op[2] == 's' {
			x, y = a.SignedVal(), b.SignedVal()
		} else {
			x, y = a.Val, b.Val
		}
		cmp := x.Cmp(y)
		switch op[3:] {
		case "lt":
			return c.Bool(cmp < 0)
		case "le":
			return c.Bool(cmp <= 0)
		case "gt":
			return c.Bool(cmp > 0)
		case "ge":
			return c.Bool(cmp >= 0)
		}
	}
	if a == b {
		switch op[3:] {
		case "lt", "gt":
			return c.False()
		default:
			return c.True()
		}
	}
	// normalise gt/ge to lt/le
	switch op[3:] {
	case "gt":
		return c.mk(op[:3]+"lt", BoolSort, b, a)
	case "ge":
		return c.mk(op[:3]+"le", BoolSort, b, a)
	}
	return c.mk(op, BoolSort, a, b)
}

func (c *Ctx) Extract(hi, lo int, a *Term) *Term {
	if lo == 0 && hi == a.Sort.Width-1 {
		return a
	}
	if a.Op == "bv" {
		r := new(big.Int).Rsh(a.Val, uint(lo))
		return c.BVConst(r, hi-lo+1)
	}
	if a.Op == "zero_extend" && hi < a.Args[0].Sort.Width {
		return c.Extract(hi, lo, a.Args[0])
	}
	if a.Op == "sign_extend" && hi < a.Args[0].Sort.Width {
		return c.Extract(hi, lo, a.Args[0])
	}
	return c.intern(&Term{Op: "extract", Name: fmt.Sprintf("%d %d", hi, lo), Args: []*Term{a}, Sort: BV(hi - lo + 1)})
}

func (c *Ctx) ZeroExt(a *Term, to int) *Term {
	w := a.Sort.Width
	if to == w {
		return a
	}
	if to < w {
		return c.Extract(to-1, 0, a)
	}
	if a.Op == "bv" {
		return c.BVConst(a.Val, to)
	}
	return c.intern(&Term{Op: "zero_extend", Name: fmt.Sprint(to - w), Args: []*Term{a}, Sort: BV(to)})
}

func (c *Ctx) SignExt(a *Term, to int) *Term {
	w := a.Sort.Width
	if to == w {
		return a
	}
	if to < w {
		return c.Extract(to-1, 0, a)
	}
	if a.Op == "bv" {
		return c.BVConst(a.SignedVal(), to)
	}
	return c.intern(&Term{Op: "sign_extend", Name: fmt.Sprint(to - w), Args: []*Term{a}, Sort: BV(to)})
}

func (c *Ctx) Concat(a, b *Term) *Term {
	if a.Op == "bv" && b.Op == "bv" {
		r := new(big.Int).Lsh(a.Val, uint(b.Sort.Width))
		r.Or(r, b.Val)
		return c.BVConst(r, a.Sort.Width+b.Sort.Width)
	}
	return c.mk("concat", BV(a.Sort.Width+b.Sort.Width), a, b)
}

func (c *Ctx) Select(arr, idx *Term) *Term {
	if !arr.Sort.IsArr() {
		panic("Select on non-array " + c.Show(arr))
	}
	if arr.Sort.Idx != idx.Sort {
		panic(fmt.Sprintf("Select index sort mismatch %s vs %s", arr.Sort, idx.Sort))
	}
	// a read of a conditional array whose branches are updates of one another at this very index (the heap family after
	// a join where one branch stored into the object read) is the conditional of the reads
	if arr.Op == "ite" && idx.Sort == RefSort && os.Getenv("HOPVC_NO_ITEPUSH") == "" {
		t, e := arr.Args[1], arr.Args[2]
		if (t.Op == "store" && t.Args[1] == idx) || (e.Op == "store" && e.Args[1] == idx) {
			return c.Ite(arr.Args[0], c.Select(t, idx), c.Select(e, idx))
		}
	}
	// ... and likewise a read of "A or A-with-one-cell-updated" (quantified facts about A are then matched by the
	// solvers' triggers, which do not look inside a conditional array)
	if arr.Op == "ite" && idx.Sort != RefSort && os.Getenv("HOPVC_NO_ITEPUSH") == "" {
		t, e := arr.Args[1], arr.Args[2]
		if (t.Op == "store" && t.Args[0] == e) || (e.Op == "store" && e.Args[0] == t) {
			return c.Ite(arr.Args[0], c.Select(t, idx), c.Select(e, idx))
		}
	}
	// read-over-write when decidable syntactically
	a := arr
	for depth := 0; depth < 64; depth++ {
		if a.Op == "store" {
			if a.Args[1] == idx {
				return a.Args[2]
			}
			if a.Args[1].Op == "bv" && idx.Op == "bv" {
				a = a.Args[0]
				continue
			}
			if len(c.distinct) > 0 && (c.distinct[[2]*Term{a.Args[1], idx}] || c.distinct[[2]*Term{idx, a.Args[1]}]) {
				a = a.Args[0]
				continue
			}
			if a.Args[1].Op == "const" && idx.Op == "const" && a.Args[1].Sort == RefSort {
				n1, n2 := a.Args[1].Name, idx.Name
				f1, f2 := strings.HasPrefix(n1, "new!"), strings.HasPrefix(n2, "new!")
				if f1 && f2 {
					// distinct fresh allocations
					a = a.Args[0]
					continue
				}
				if (f1 && strings.HasPrefix(n2, "in.")) || (f2 && strings.HasPrefix(n1, "in.")) {
					// an allocation made during the execution is distinct from a reference passed in
					a = a.Args[0]
					continue
				}
			}
		}
		if a.Op == "constarr" {
			return a.Args[0]
		}
		break
	}
	return c.mk("select", arr.Sort.Elem, a, idx)
}

func (c *Ctx) Store(arr, idx, v *Term) *Term {
	if !arr.Sort.IsArr() {
		panic("Store on non-array")
	}
	if arr.Sort.Idx != idx.Sort || arr.Sort.Elem != v.Sort {
		panic(fmt.Sprintf("Store sort mismatch %s idx %s val %s", arr.Sort, idx.Sort, v.Sort))
	}
	if arr.Op == "store" && arr.Args[1] == idx {
		return c.Store(arr.Args[0], idx, v)
	}
	return c.mk("store", arr.Sort, arr, idx, v)
}

func (c *Ctx) ConstArr(s *Sort, v *Term) *Term {
	return c.intern(&Term{Op: "constarr", Args: []*Term{v}, Sort: s})
}

func (c *Ctx) Quant(op string, bound []*Term, body *Term, pats ...[]*Term) *Term {
	if body.IsTrue() || body.IsFalse() {
		return body
	}
	return c.intern(&Term{Op: op, Args: []*Term{body}, Bound: bound, Pats: pats, Sort: BoolSort})
}
func (c *Ctx) Forall(bound []*Term, body *Term, pats ...[]*Term) *Term {
	return c.Quant("forall", bound, body, pats...)
}
func (c *Ctx) Exists(bound []*Term, body *Term, pats ...[]*Term) *Term {
	return c.Quant("exists", bound, body, pats...)
}

// Subst replaces terms (by identity) according to m, rebuilding through the
// simplifying constructors.
func (c *Ctx) Subst(t *Term, m map[*Term]*Term) *Term {
	memo := map[*Term]*Term{}
	var rec func(t *Term) *Term
	rec = func(t *Term) *Term {
		if r, ok := m[t]; ok {
			return r
		}
		if len(t.Args) == 0 {
			return t
		}
		if r, ok := memo[t]; ok {
			return r
		}
		args := make([]*Term, len(t.Args))
		changed := false
		for i, a := range t.Args {
			args[i] = rec(a)
			if args[i] != a {
				changed = true
			}
		}
		var r *Term
		if !changed && !(t.Op == "select" && len(c.distinct) > 0) {
			r = t
		} else {
			r = c.rebuild(t, args)
		}
		memo[t] = r
		return r
	}
	return rec(t)
}

func (c *Ctx) rebuild(t *Term, args []*Term) *Term {
	switch t.Op {
	case "not":
		return c.Not(args[0])
	case "and":
		return c.And(args...)
	case "or":
		return c.Or(args...)
	case "=>":
		return c.Implies(args[0], args[1])
	case "=":
		return c.Eq(args[0], args[1])
	case "ite":
		return c.Ite(args[0], args[1], args[2])
	case "select":
		return c.Select(args[0], args[1])
	case "store":
		return c.Store(args[0], args[1], args[2])
	case "bvadd", "bvsub", "bvmul", "bvand", "bvor", "bvxor", "bvshl", "bvlshr", "bvashr", "bvudiv", "bvurem", "bvsdiv", "bvsrem":
		return c.BVBin(t.Op, args[0], args[1])
	case "bvult", "bvule", "bvslt", "bvsle":
		return c.BVCmp(t.Op, args[0], args[1])
	case "bvnot":
		return c.BVNot(args[0])
	case "bvneg":
		return c.BVNeg(args[0])
	case "extract":
		var hi, lo int
		fmt.Sscanf(t.Name, "%d %d", &hi, &lo)
		return c.Extract(hi, lo, args[0])
	case "zero_extend":
		return c.ZeroExt(args[0], t.Sort.Width)
	case "sign_extend":
		return c.SignExt(args[0], t.Sort.Width)
	case "concat":
		return c.Concat(args[0], args[1])
	case "forall", "exists":
		var pats [][]*Term
		return c.intern(&Term{Op: t.Op, Args: args, Bound: t.Bound, Pats: pats, Sort: BoolSort})
	}
	return c.intern(&Term{Op: t.Op, Name: t.Name, Args: args, Sort: t.Sort, Val: t.Val})
}

// ---- printing

func bvLit(v *big.Int, w int) string {
	if w%4 == 0 {
		s := v.Text(16)
		for len(s) < w/4 {
			s = "0" + s
		}
		return "#x" + s
	}
	s := v.Text(2)
	for len(s) < w {
		s = "0" + s
	}
	return "#b" + s
}

type printer struct {
	c     *Ctx
	names map[int]string
	out   *strings.Builder
	used  map[string]bool // declared symbols used
}

func (p *printer) ref(t *Term) string {
	if n, ok := p.names[t.ID]; ok {
		return n
	}
	return p.expr(t)
}

func (p *printer) expr(t *Term) string {
	switch t.Op {
	case "true", "false":
		return t.Op
	case "bv":
		return bvLit(t.Val, t.Sort.Width)
	case "const":
		p.used[t.Name] = true
		return smtName(t.Name)
	case "bound":
		return smtName(t.Name)
	case "app":
		p.used[t.Name] = true
		if len(t.Args) == 0 {
			return smtName(t.Name)
		}
		var sb strings.Builder
		sb.WriteString("(" + smtName(t.Name))
		for _, a := range t.Args {
			sb.WriteString(" " + p.ref(a))
		}
		sb.WriteString(")")
		return sb.String()
	case "extract":
		return fmt.Sprintf("((_ extract %s) %s)", t.Name, p.ref(t.Args[0]))
	case "zero_extend", "sign_extend":
		return fmt.Sprintf("((_ %s %s) %s)", t.Op, t.Name, p.ref(t.Args[0]))
	case "constarr":
		// cvc5 wants a value (not a defined name) as the element of a constant array
		if isValueTerm(t.Args[0]) {
			return fmt.Sprintf("((as const %s) %s)", t.Sort, p.expr(t.Args[0]))
		}
		return fmt.Sprintf("((as const %s) %s)", t.Sort, p.ref(t.Args[0]))
	case "forall", "exists":
		var sb strings.Builder
		sb.WriteString("(" + t.Op + " (")
		for _, b := range t.Bound {
			fmt.Fprintf(&sb, "(%s %s)", smtName(b.Name), b.Sort)
		}
		sb.WriteString(") ")
		body := p.ref(t.Args[0])
		if len(t.Pats) > 0 {
			sb.WriteString("(! " + body)
			for _, pat := range t.Pats {
				sb.WriteString(" :pattern (")
				for i, x := range pat {
					if i > 0 {
						sb.WriteString(" ")
					}
					sb.WriteString(p.ref(x))
				}
				sb.WriteString(")")
			}
			sb.WriteString(")")
		} else {
			sb.WriteString(body)
		}
		sb.WriteString(")")
		return sb.String()
	}
	var sb strings.Builder
	sb.WriteString("(" + t.Op)
	for _, a := range t.Args {
		sb.WriteString(" " + p.ref(a))
	}
	sb.WriteString(")")
	return sb.String()
}

// define emits define-funs for every closed non-leaf node reachable from t.
func (p *printer) define(t *Term) {
	if _, ok := p.names[t.ID]; ok {
		return
	}
	if len(t.Args) == 0 {
		return
	}
	for _, a := range t.Args {
		p.define(a)
	}
	for _, pat := range t.Pats {
		for _, x := range pat {
			p.define(x)
		}
	}
	if t.open {
		return
	}
	e := p.expr(t)
	n := fmt.Sprintf("n%d", t.ID)
	fmt.Fprintf(p.out, "(define-fun %s () %s %s)\n", n, t.Sort, e)
	p.names[t.ID] = n
}

// Show renders a term as a compact string for diagnostics.
func (c *Ctx) Show(t *Term) string {
	p := &printer{c: c, names: map[int]string{}, out: &strings.Builder{}, used: map[string]bool{}}
	s := p.expr(t)
	if len(s) > 600 {
		s = s[:600] + "…"
	}
	return s
}

// Query renders "assumptions ∧ ¬goal" as an SMT-LIB2 script.  getValues are
// terms whose model value is requested after check-sat.
func (c *Ctx) Query(assumes []*Term, goal *Term, getValues []*Term, timeoutMs int) string {
	s, _ := c.QueryGV(assumes, goal, getValues, timeoutMs)
	return s
}

// QueryGV is Query that also returns, per requested value, the symbol under which the solver reports it.
func (c *Ctx) QueryGV(assumes []*Term, goal *Term, getValues []*Term, timeoutMs int) (string, []string) {
	body := &strings.Builder{}
	p := &printer{c: c, names: map[int]string{}, out: body, used: map[string]bool{}}
	if !c.noPrune && os.Getenv("HOPVC_NO_PRUNE") == "" {
		assumes = c.pruneAxioms(assumes, goal)
	}
	for _, a := range assumes {
		p.define(a)
		fmt.Fprintf(body, "(assert %s)\n", p.ref(a))
	}
	ng := c.Not(goal)
	p.define(ng)
	fmt.Fprintf(body, "(assert %s)\n", p.ref(ng))
	var gv []string
	gvAll := make([]string, len(getValues))
	for i, t := range getValues {
		if t.open {
			continue
		}
		p.define(t)
		gv = append(gv, p.ref(t))
		gvAll[i] = p.ref(t)
	}
	// find symbols used inside defs text
	head := &strings.Builder{}
	head.WriteString("(set-option :produce-models true)\n")
	head.WriteString("(set-logic ALL)\n")
	var sn []string
	sortMu.Lock()
	for _, so := range sortCache {
		if so.Kind == SUnint {
			sn = append(sn, so.Name)
		}
	}
	sortMu.Unlock()
	sort.Strings(sn)
	for _, s := range sn {
		fmt.Fprintf(head, "(declare-sort %s 0)\n", s)
	}
	for _, n := range c.declOrder {
		if p.used[n] || c.defUses[n] {
			head.WriteString(c.decls[n] + "\n")
		}
	}
	for _, d := range c.defs {
		head.WriteString(d + "\n")
	}
	head.WriteString(body.String())
	head.WriteString("(check-sat)\n")
	if len(gv) > 0 {
		fmt.Fprintf(head, "(get-value (%s))\n", strings.Join(gv, " "))
	}
	return head.String(), gvAll
}

// freeBoundVars lists the bound variables occurring free in t.
func freeBoundVars(t *Term) []*Term {
	var out []*Term
	seen := map[*Term]bool{}
	var rec func(t *Term, bs map[*Term]bool)
	rec = func(t *Term, bs map[*Term]bool) {
		if !t.open {
			return
		}
		if t.Op == "bound" {
			if !bs[t] && !seen[t] {
				seen[t] = true
				out = append(out, t)
			}
			return
		}
		nbs := bs
		if t.Op == "forall" || t.Op == "exists" {
			nbs = map[*Term]bool{}
			for k := range bs {
				nbs[k] = true
			}
			for _, b := range t.Bound {
				nbs[b] = true
			}
		}
		for _, a := range t.Args {
			rec(a, nbs)
		}
	}
	rec(t, map[*Term]bool{})
	return out
}

func isValueTerm(t *Term) bool {
	switch t.Op {
	case "bv", "true", "false":
		return true
	case "constarr":
		return isValueTerm(t.Args[0])
	}
	return false
}

// pruneAxioms drops closed axioms (top-level forall without free symbols other than specification functions)
// none of whose specification-function symbols is connected - directly or through other kept axioms or through
// the bodies of defined specification functions - to the rest of the query.  Dropping hypotheses is sound; such an
// axiom only constrains symbols the rest of the query never mentions, but its presence makes the solvers give up
// ("incomplete") on otherwise easy goals.
type symInfo struct {
	syms   map[string]bool
	closed bool
}

func (c *Ctx) pruneAxioms(assumes []*Term, goal *Term) []*Term {
	symsOf := func(t *Term) (map[string]bool, bool) {
		out := map[string]bool{}
		closed := true
		seen := map[*Term]bool{}
		var rec func(t *Term)
		rec = func(t *Term) {
			if seen[t] {
				return
			}
			seen[t] = true
			switch t.Op {
			case "app":
				out[t.Name] = true
			case "const":
				closed = false
			}
			for _, a := range t.Args {
				rec(a)
			}
			for _, ps := range t.Pats {
				for _, q := range ps {
					rec(q)
				}
			}
		}
		rec(t)
		return out, closed
	}
	if c.symCache == nil {
		c.symCache = map[*Term]*symInfo{}
	}
	cached := func(t *Term) *symInfo {
		if si, ok := c.symCache[t]; ok {
			return si
		}
		m, closed := symsOf(t)
		si := &symInfo{m, closed}
		c.symCache[t] = si
		return si
	}
	type ax struct {
		i    int
		syms map[string]bool
	}
	var cands []ax
	present := map[string]bool{}
	add := func(m map[string]bool) {
		for k := range m {
			present[k] = true
		}
	}
	g, _ := symsOf(goal)
	add(g)
	for i, a := range assumes {
		si := cached(a)
		m, closed := si.syms, si.closed
		hasSpec := false
		for k := range m {
			if strings.HasPrefix(k, "spec.") {
				hasSpec = true
			}
		}
		if a.Op == "forall" && closed && hasSpec {
			cands = append(cands, ax{i, m})
		} else {
			add(m)
		}
	}
	if len(cands) == 0 {
		return assumes
	}
	// symbols used by the bodies of defined specification functions
	defDeps := map[string][]string{}
	for _, d := range c.defs {
		f := strings.Fields(d)
		if len(f) < 2 {
			continue
		}
		name := strings.Trim(f[1], "|")
		for _, tok := range strings.FieldsFunc(d, func(r rune) bool { return r == '(' || r == ')' || r == ' ' || r == '|' }) {
			if (strings.HasPrefix(tok, "spec.") || tok == "rng") && tok != name {
				defDeps[name] = append(defDeps[name], tok)
			}
		}
	}
	keep := map[int]bool{}
	for changed := true; changed; {
		changed = false
		for k := range present {
			for _, d := range defDeps[k] {
				if !present[d] {
					present[d] = true
					changed = true
				}
			}
		}
		for _, a := range cands {
			if keep[a.i] {
				continue
			}
			for k := range a.syms {
				if present[k] {
					keep[a.i] = true
					add(a.syms)
					changed = true
					break
				}
			}
		}
	}
	isCand := map[int]bool{}
	for _, a := range cands {
		isCand[a.i] = true
	}
	var out []*Term
	for i, a := range assumes {
		if !isCand[i] || keep[i] {
			out = append(out, a)
		}
	}
	return out
}
