package main

// Syntactic frame check for contracts with an explicit `modifies` list: every
// heap write in the body (stores, copy/append in place, callee effects) must be
// covered by a listed target.  Paths are resolved through SSA to "param.f.g"
// access paths; anything that cannot be resolved to a fresh allocation or a
// covered path is reported.

import (
	"fmt"
	"go/token"
	"go/types"
	"strings"

	"golang.org/x/tools/go/ssa"
)

type accPath struct {
	root  string   // parameter name, "fresh", or "" (unknown)
	comps []string // field names
	ptr   []bool   // ptr[i]: component i is reached through a pointer stored in the previous object
}

func (p accPath) String() string {
	if p.root == "" {
		return "?"
	}
	s := p.root
	for _, c := range p.comps {
		s += "." + c
	}
	return s
}

type frameScanner struct {
	eng   *Engine
	fn    *ssa.Function
	fc    *FuncContract
	memo  map[ssa.Value]accPath
	depth int
}

func (fs *frameScanner) paramName(p *ssa.Parameter) string {
	// contract header names are positional
	idx := -1
	for i, q := range fs.fn.Params {
		if q == p {
			idx = i
		}
	}
	if fs.fn.Signature.Recv() != nil {
		if idx == 0 {
			return fs.fc.Recv
		}
		idx--
	}
	if idx >= 0 && idx < len(fs.fc.Params) {
		return fs.fc.Params[idx]
	}
	return p.Name()
}

func (fs *frameScanner) resolve(v ssa.Value) accPath {
	if p, ok := fs.memo[v]; ok {
		return p
	}
	fs.memo[v] = accPath{} // cycle guard
	fs.depth++
	defer func() { fs.depth-- }()
	var res accPath
	if fs.depth > 40 {
		return res
	}
	switch x := v.(type) {
	case *ssa.Parameter:
		res = accPath{root: fs.paramName(x)}
	case *ssa.Alloc:
		res = accPath{root: "fresh"}
	case *ssa.MakeSlice, *ssa.MakeMap, *ssa.MakeChan, *ssa.MakeClosure, *ssa.MakeInterface:
		res = accPath{root: "fresh"}
	case *ssa.Const:
		res = accPath{root: "fresh"}
	case *ssa.Global:
		res = accPath{root: "global:" + x.Name()}
	case *ssa.FieldAddr:
		base := fs.resolve(x.X)
		if base.root != "" {
			st := x.X.Type().Underlying().(*types.Pointer).Elem().Underlying().(*types.Struct)
			res = accPath{root: base.root, comps: append(append([]string{}, base.comps...), st.Field(x.Field).Name()), ptr: append(append([]bool{}, base.ptr...), fs.viaPointer(x.X))}
		}
	case *ssa.IndexAddr:
		res = fs.resolve(x.X)
	case *ssa.Slice:
		res = fs.resolve(x.X)
	case *ssa.SliceToArrayPointer:
		res = fs.resolve(x.X)
	case *ssa.ChangeType:
		res = fs.resolve(x.X)
	case *ssa.Convert:
		res = accPath{root: "fresh"}
	case *ssa.Phi:
		for i, e := range x.Edges {
			p := fs.resolve(e)
			if i == 0 {
				res = p
			} else if p.String() != res.String() {
				res = accPath{}
			}
		}
	case *ssa.UnOp:
		if x.Op != token.MUL {
			break
		}
		// load: of a local variable cell, or of a pointer/slice stored in an object
		if a, ok := x.X.(*ssa.Alloc); ok {
			res = fs.localHolds(a)
		} else {
			res = fs.resolve(x.X) // value stored at that path: same path, marked as pointer hop by viaPointer
		}
	case *ssa.Call:
		if b, ok := x.Call.Value.(*ssa.Builtin); ok && b.Name() == "append" {
			// append may return its first argument's backing array
			p := fs.resolve(x.Call.Args[0])
			if p.root == "fresh" {
				res = p
			} else {
				res = p // in-place growth writes into it
			}
		} else {
			res = accPath{root: "fresh"} // results of calls are treated as fresh or read-only here; callee effects are checked separately
		}
	case *ssa.Extract:
		res = accPath{root: "fresh"}
	case *ssa.Lookup, *ssa.TypeAssert, *ssa.Next:
		res = accPath{}
	}
	fs.memo[v] = res
	return res
}

// viaPointer: the object addressed by x is reached through a pointer loaded from memory (not the parameter itself).
func (fs *frameScanner) viaPointer(x ssa.Value) bool {
	switch y := x.(type) {
	case *ssa.UnOp:
		if y.Op == token.MUL {
			if _, isAlloc := y.X.(*ssa.Alloc); isAlloc {
				return false // the parameter's own value
			}
			return true
		}
	case *ssa.Parameter:
		return false
	}
	return false
}

// localHolds: what a local variable cell may hold (all stores into it must agree on the base path).
func (fs *frameScanner) localHolds(a *ssa.Alloc) accPath {
	refs := a.Referrers()
	if refs == nil {
		return accPath{}
	}
	var res accPath
	first := true
	for _, r := range *refs {
		st, ok := r.(*ssa.Store)
		if !ok || st.Addr != a {
			continue
		}
		// self-derived updates (b = b[n:]) do not change the base
		if fs.derivesFrom(st.Val, a, 0) {
			continue
		}
		p := fs.resolve(st.Val)
		if first {
			res, first = p, false
		} else if p.String() != res.String() {
			if p.root == "fresh" && res.root == "fresh" {
				continue
			}
			return accPath{}
		}
	}
	if first {
		return accPath{root: "fresh"} // never assigned: zero value
	}
	return res
}

func (fs *frameScanner) derivesFrom(v ssa.Value, a *ssa.Alloc, d int) bool {
	if d > 10 {
		return false
	}
	switch x := v.(type) {
	case *ssa.UnOp:
		return x.Op == token.MUL && x.X == a
	case *ssa.Slice:
		return fs.derivesFrom(x.X, a, d+1)
	case *ssa.ChangeType:
		return fs.derivesFrom(x.X, a, d+1)
	}
	return false
}

// covered: is a write to path p permitted by the contract's modifies list?
func (fs *frameScanner) covered(p accPath) bool {
	if p.root == "fresh" {
		return true
	}
	if p.root == "" {
		return false
	}
	for _, m := range fs.fc.Modifies {
		if fs.coversTarget(m.Expr, p) {
			return true
		}
	}
	return false
}

func flattenPath(x *CExpr) (root string, comps []string, kind string) {
	switch x.Op {
	case "paren":
		return flattenPath(x.Args[0])
	case "ident":
		return x.Name, nil, "value"
	case "field":
		r, c, _ := flattenPath(x.Args[0])
		if x.Name == "*" {
			return r, c, "all"
		}
		if strings.HasPrefix(x.Name, "gh_") {
			return "", nil, "ghost"
		}
		return r, append(c, x.Name), "value"
	case "un":
		if x.Name == "*" {
			r, c, _ := flattenPath(x.Args[0])
			return r, c, "all"
		}
	case "slice", "index":
		r, c, _ := flattenPath(x.Args[0])
		return r, c, "contents"
	case "call":
		if x.Name == "opaque" || x.Name == "mapof" || x.Name == "families" {
			return "", nil, x.Name
		}
	}
	return "", nil, "?"
}

func (fs *frameScanner) coversTarget(m *CExpr, p accPath) bool {
	root, comps, kind := flattenPath(m)
	if root != p.root {
		return false
	}
	// the target's components must be a prefix of the written path
	if len(comps) > len(p.comps) {
		return false
	}
	for i, c := range comps {
		if p.comps[i] != c {
			return false
		}
	}
	rest := p.ptr[len(comps):]
	switch kind {
	case "value", "contents":
		// x.f covers x.f itself, the contents of the slice/array it holds, and (for struct-typed f) its nested value fields
		for _, viaP := range rest {
			if viaP {
				return false
			}
		}
		return true
	case "all":
		// *x: every field of the object x points to, but nothing reached through further pointers
		for i, viaP := range rest {
			if i > 0 && viaP {
				return false
			}
		}
		return true
	}
	return false
}

// frameObligations lists the writes of fn not covered by its modifies clause.
func (eng *Engine) frameObligations(fn *ssa.Function, fc *FuncContract) []structObl {
	if fc == nil || fc.Assumed || fc.ModAll || fc.Pure || len(fc.Modifies) == 0 || len(fn.Blocks) == 0 {
		return nil
	}
	fs := &frameScanner{eng: eng, fn: fn, fc: fc, memo: map[ssa.Value]accPath{}}
	key := funcKey(fn)
	var bad []string
	report := func(pos token.Pos, what string) {
		bad = append(bad, fmt.Sprintf("%s at %s", what, eng.prog.Fset.Position(pos)))
	}
	opaqueOK := false
	for _, m := range fc.Modifies {
		if _, _, k := flattenPath(m.Expr); k == "opaque" {
			opaqueOK = true
		}
	}
	_ = opaqueOK
	for _, b := range fn.Blocks {
		for _, ins := range b.Instrs {
			switch x := ins.(type) {
			case *ssa.Store:
				if a, ok := x.Addr.(*ssa.Alloc); ok && !a.Heap {
					continue
				}
				if root := rootAlloc(x.Addr); root != nil {
					continue // write into a local object
				}
				p := fs.resolve(x.Addr)
				if !fs.covered(p) {
					report(x.Pos(), "store to "+p.String())
				}
			case *ssa.MapUpdate:
				okm := false
				for _, m := range fc.Modifies {
					if _, _, k := flattenPath(m.Expr); k == "mapof" {
						okm = true
					}
				}
				if p := fs.resolve(x.Map); p.root == "fresh" {
					okm = true
				}
				if !okm {
					report(x.Pos(), "map update")
				}
			case ssa.CallInstruction:
				cc := x.Common()
				if _, isGo := ins.(*ssa.Go); isGo {
					continue
				}
				if bi, ok := cc.Value.(*ssa.Builtin); ok {
					switch bi.Name() {
					case "copy":
						p := fs.resolve(cc.Args[0])
						if !fs.covered(p) {
							report(ins.Pos(), "copy into "+p.String())
						}
					case "append":
						// in-place growth only writes beyond len; visible to holders of longer views of the same array.
						// Accepted when the base is fresh or covered.
						p := fs.resolve(cc.Args[0])
						if !fs.covered(p) {
							report(ins.Pos(), "append to "+p.String())
						}
					case "delete":
						okm := false
						for _, m := range fc.Modifies {
							if _, _, k := flattenPath(m.Expr); k == "mapof" {
								okm = true
							}
						}
						if !okm {
							report(ins.Pos(), "map delete")
						}
					}
					continue
				}
				// callee effects
				var cfc *FuncContract
				var callee *ssa.Function
				argOf := map[string]ssa.Value{}
				if cc.IsInvoke() {
					cfc = eng.db.Funcs[ifaceMethodKey(cc.Value.Type(), cc.Method.Name())]
					if cfc != nil {
						argOf[cfc.Recv] = cc.Value
						for i, n := range cfc.Params {
							if i < len(cc.Args) {
								argOf[n] = cc.Args[i]
							}
						}
					}
				} else if callee = cc.StaticCallee(); callee != nil {
					switch pkgPathOf(callee) {
					case "github.com/sirupsen/logrus", "log", "sync", "sync/atomic":
						continue
					}
					if callee.Name() == "ssa:wrapnilchk" {
						continue
					}
					if key, ps, tgt := streamIntrinsicStatic(cc, callee); key != "" && eng.db.Funcs[key] != nil {
						// binary.Read / binary.Write / io.CopyN in their modelled forms (see streamIntrinsic)
						cfc = eng.db.Funcs[key]
						for i, n := range cfc.Params {
							if i < len(ps) {
								argOf[n] = ps[i]
							}
						}
						if tgt != nil {
							if p := fs.resolve(tgt); !fs.covered(p) {
								report(ins.Pos(), "store through the target of binary.Read: "+p.String())
							}
						}
					} else if cfc = eng.db.Funcs[funcKey(callee)]; cfc != nil {
						args := cc.Args
						if callee.Signature.Recv() != nil && len(args) > 0 {
							argOf[cfc.Recv] = args[0]
							args = args[1:]
						}
						for i, n := range cfc.Params {
							if i < len(args) {
								argOf[n] = args[i]
							}
						}
					}
				} else if gk := globalFuncKey(cc); gk != "" {
					cfc = eng.db.Funcs[gk]
					if cfc != nil {
						for i, n := range cfc.Params {
							if i < len(cc.Args) {
								argOf[n] = cc.Args[i]
							}
						}
					}
				} else if fa, ok := cc.Value.(*ssa.UnOp); ok {
					if f, ok := fa.X.(*ssa.FieldAddr); ok {
						pt := f.X.Type().Underlying().(*types.Pointer).Elem()
						cfc = eng.db.Funcs[typeKey(pt)+"."+under(pt).(*types.Struct).Field(f.Field).Name()]
					}
				}
				if cfc == nil && cc.IsInvoke() && cc.Method.Name() == "Error" && len(cc.Args) == 0 {
					continue // error.Error(): pure
				}
				if cfc == nil && callee != nil && pureStdlib(pkgPathOf(callee), callee) {
					continue // value-level standard-library helper: treated as pure by the symbolic execution too
				}
				if cfc == nil {
					if callee != nil && (eng.autoInline(callee)) {
						continue // small helper inlined; its stores are checked when it is verified itself (conservative gap noted)
					}
					name := "dynamic call"
					if callee != nil {
						name = funcKey(callee)
					}
					report(ins.Pos(), "call to "+name+" without contract (may modify anything)")
					continue
				}
				if cfc.Pure || cfc.Inline {
					continue
				}
				if cfc.ModAll || len(cfc.Modifies) == 0 {
					report(ins.Pos(), "call to "+cfc.Key+" whose contract has no modifies clause (may modify anything)")
					continue
				}
				for _, m := range cfc.Modifies {
					root, comps, kind := flattenPath(m.Expr)
					if kind == "ghost" || kind == "opaque" {
						continue
					}
					if kind == "families" {
						// the caller must declare every family the callee declares
						want := map[string]bool{}
						for _, a := range m.Expr.Args {
							want[a.Name] = true
						}
						for _, mm := range fc.Modifies {
							if _, _, k := flattenPath(mm.Expr); k == "families" {
								for _, a := range mm.Expr.Args {
									delete(want, a.Name)
								}
							}
						}
						for w := range want {
							report(ins.Pos(), "callee "+cfc.Key+" modifies family "+w+" which the caller does not declare")
						}
						continue
					}
					if kind == "mapof" {
						okm := false
						for _, mm := range fc.Modifies {
							if _, _, k := flattenPath(mm.Expr); k == "mapof" {
								okm = true
							}
						}
						if !okm {
							report(ins.Pos(), "callee "+cfc.Key+" updates a map")
						}
						continue
					}
					if _, isGhost := eng.ghostTypes[root]; isGhost && len(comps) == 0 {
						continue
					}
					av, ok := argOf[root]
					if !ok {
						report(ins.Pos(), "callee "+cfc.Key+" modifies "+exprString(m.Expr)+" (unresolved)")
						continue
					}
					base := fs.resolve(av)
					if base.root == "fresh" {
						continue
					}
					// compose: argument path + callee components
					p := accPath{root: base.root, comps: append(append([]string{}, base.comps...), comps...), ptr: append(append([]bool{}, base.ptr...), make([]bool, len(comps))...)}
					if kind == "all" {
						p.comps = append(p.comps, "*")
						p.ptr = append(p.ptr, false)
					}
					if !fs.coveredLoose(p) {
						report(ins.Pos(), "callee "+cfc.Key+" modifies "+p.String())
					}
				}
			}
		}
	}
	if len(bad) == 0 {
		return []structObl{{Name: "frame:" + key, OK: true}}
	}
	if len(bad) > 6 {
		bad = append(bad[:6], fmt.Sprintf("… %d more", len(bad)-6))
	}
	return []structObl{{Name: "frame:" + key, OK: false, Detail: "writes not covered by the modifies clause: " + strings.Join(bad, "; ")}}
}

// coveredLoose: like covered, for paths composed from a callee's modifies target ("*" as last component allowed).
func (fs *frameScanner) coveredLoose(p accPath) bool {
	if p.root == "fresh" {
		return true
	}
	if n := len(p.comps); n > 0 && p.comps[n-1] == "*" {
		q := accPath{root: p.root, comps: p.comps[:n-1], ptr: p.ptr[:n-1]}
		// all fields of q: need a target covering q as a whole
		for _, m := range fs.fc.Modifies {
			root, comps, kind := flattenPath(m.Expr)
			if root != q.root || len(comps) > len(q.comps) {
				continue
			}
			okp := true
			for i, c := range comps {
				if q.comps[i] != c {
					okp = false
				}
			}
			if okp && (kind == "all" || kind == "value" || kind == "contents") {
				return true
			}
		}
		return false
	}
	return fs.covered(p)
}
