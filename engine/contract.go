package main

// Contract files: comment-only Go files (//go:build verif) whose //@ lines
// carry Gobra-style specifications keyed to functions by receiver and name and
// to loops by ordinal.  Also prelude files (*.spec) under /verif/prelude with
// the same syntax without the comment prefix, for standard-library and
// dependency functions.

import (
	"fmt"
	"go/scanner"
	"go/token"
	"os"
	"path/filepath"
	"strings"
)

type CTok struct {
	Tok token.Token
	Lit string
	Pos int
}

// extra token kinds
const (
	tIMPLIES token.Token = token.Token(1000 + iota)
	tIFF
	tDCOLON
	tQUESTION
)

func lexExpr(src string) ([]CTok, error) {
	// go/scanner rejects '?'; replace by a private marker
	src2 := strings.ReplaceAll(src, "?", " @@Q ")
	_ = src2
	var toks []CTok
	fs := token.NewFileSet()
	f := fs.AddFile("", fs.Base(), len(src))
	var s scanner.Scanner
	var errs []string
	s.Init(f, []byte(src), func(pos token.Position, msg string) {
		if !strings.Contains(msg, "illegal character U+003F") {
			errs = append(errs, msg)
		}
	}, 0)
	for {
		pos, tok, lit := s.Scan()
		if tok == token.EOF {
			break
		}
		if tok == token.SEMICOLON && lit == "\n" {
			continue
		}
		p := int(pos) - f.Base()
		if tok == token.ILLEGAL && lit == "?" {
			toks = append(toks, CTok{tQUESTION, "?", p})
			continue
		}
		toks = append(toks, CTok{tok, lit, p})
	}
	if len(errs) > 0 {
		return nil, fmt.Errorf("lex: %s in %q", strings.Join(errs, "; "), src)
	}
	// merge multi-token operators
	var out []CTok
	for i := 0; i < len(toks); i++ {
		t := toks[i]
		adj := func(k int) bool { return i+k < len(toks) && toks[i+k].Pos == toks[i+k-1].Pos+len(tokText(toks[i+k-1])) }
		if t.Tok == token.EQL && adj(1) && toks[i+1].Tok == token.GTR {
			out = append(out, CTok{tIMPLIES, "==>", t.Pos})
			i++
			continue
		}
		if t.Tok == token.LEQ && adj(1) && toks[i+1].Tok == token.ASSIGN && adj(2) && toks[i+2].Tok == token.GTR {
			out = append(out, CTok{tIFF, "<==>", t.Pos})
			i += 2
			continue
		}
		if t.Tok == token.COLON && adj(1) && toks[i+1].Tok == token.COLON {
			out = append(out, CTok{tDCOLON, "::", t.Pos})
			i++
			continue
		}
		out = append(out, t)
	}
	return out, nil
}

func tokText(t CTok) string {
	if t.Lit != "" {
		return t.Lit
	}
	return t.Tok.String()
}

// ---- AST

type CExpr struct {
	Op   string // ident num str char bin un call index slice field old forall exists ite paren
	Name string // ident name, operator, field name, function name
	Args []*CExpr
	Vars []CParam // quantifier variables
	Src  string
}

type CParam struct {
	Name string
	Type *CType
}

type CType struct {
	Kind string // name, array, slice, set, ptr, map
	Name string
	N    int64
	Elem *CType
	Key  *CType
}

func (t *CType) String() string {
	switch t.Kind {
	case "array":
		return fmt.Sprintf("[%d]%s", t.N, t.Elem)
	case "slice":
		return "[]" + t.Elem.String()
	case "set":
		return "set[" + t.Elem.String() + "]"
	case "map":
		return "map[" + t.Key.String() + "]" + t.Elem.String()
	case "ptr":
		return "*" + t.Elem.String()
	}
	return t.Name
}

type cparser struct {
	toks []CTok
	pos  int
	src  string
}

func (p *cparser) peek() CTok {
	if p.pos < len(p.toks) {
		return p.toks[p.pos]
	}
	return CTok{Tok: token.EOF}
}
func (p *cparser) next() CTok { t := p.peek(); p.pos++; return t }
func (p *cparser) accept(tok token.Token) bool {
	if p.peek().Tok == tok {
		p.pos++
		return true
	}
	return false
}
func (p *cparser) expect(tok token.Token) {
	if !p.accept(tok) {
		panic(fmt.Errorf("contract syntax: expected %s at %q in %q", tok, tokText(p.peek()), p.src))
	}
}
func (p *cparser) isIdent(name string) bool {
	t := p.peek()
	return t.Tok == token.IDENT && t.Lit == name
}

func ParseCExpr(src string) (e *CExpr, err error) {
	defer func() {
		if r := recover(); r != nil {
			if er, ok := r.(error); ok {
				err = er
				return
			}
			panic(r)
		}
	}()
	toks, err := lexExpr(src)
	if err != nil {
		return nil, err
	}
	p := &cparser{toks: toks, src: src}
	e = p.parseExpr()
	if p.pos != len(p.toks) {
		return nil, fmt.Errorf("contract syntax: trailing %q in %q", tokText(p.peek()), src)
	}
	e.Src = strings.TrimSpace(src)
	return e, nil
}

func (p *cparser) parseType() *CType {
	t := p.peek()
	switch {
	case t.Tok == token.LBRACK:
		p.next()
		if p.accept(token.RBRACK) {
			return &CType{Kind: "slice", Elem: p.parseType()}
		}
		n := p.next()
		var v int64
		fmt.Sscan(n.Lit, &v)
		p.expect(token.RBRACK)
		return &CType{Kind: "array", N: v, Elem: p.parseType()}
	case t.Tok == token.MUL:
		p.next()
		return &CType{Kind: "ptr", Elem: p.parseType()}
	case t.Tok == token.MAP:
		p.next()
		p.expect(token.LBRACK)
		k := p.parseType()
		p.expect(token.RBRACK)
		return &CType{Kind: "map", Key: k, Elem: p.parseType()}
	case t.Tok == token.IDENT && t.Lit == "set":
		p.next()
		p.expect(token.LBRACK)
		e := p.parseType()
		p.expect(token.RBRACK)
		return &CType{Kind: "set", Elem: e}
	case t.Tok == token.IDENT:
		p.next()
		name := t.Lit
		if p.accept(token.PERIOD) {
			name += "." + p.next().Lit
		}
		return &CType{Kind: "name", Name: name}
	case t.Tok == token.INTERFACE:
		p.next()
		p.expect(token.LBRACE)
		p.expect(token.RBRACE)
		return &CType{Kind: "name", Name: "any"}
	case t.Tok == token.FUNC:
		p.next()
		depth := 0
		for {
			k := p.next()
			if k.Tok == token.LPAREN {
				depth++
			}
			if k.Tok == token.RPAREN {
				depth--
				if depth == 0 {
					break
				}
			}
			if k.Tok == token.EOF {
				break
			}
		}
		return &CType{Kind: "name", Name: "func"}
	case t.Tok == token.ELLIPSIS:
		p.next()
		return &CType{Kind: "slice", Elem: p.parseType()}
	}
	panic(fmt.Errorf("contract syntax: type expected at %q in %q", tokText(t), p.src))
}

func (p *cparser) parseExpr() *CExpr {
	if p.isIdent("forall") || p.isIdent("exists") {
		op := p.next().Lit
		var vars []CParam
		for {
			var names []string
			names = append(names, p.next().Lit)
			for p.accept(token.COMMA) {
				names = append(names, p.next().Lit)
			}
			ty := p.parseType()
			for _, n := range names {
				vars = append(vars, CParam{n, ty})
			}
			if p.peek().Tok == tDCOLON {
				p.next()
				break
			}
			if !p.accept(token.COMMA) {
				p.expect(token.SEMICOLON)
			}
		}
		// optional trigger:  forall x T :: {pattern, pattern} body   (kept as Args[1:])
		var pats []*CExpr
		if p.peek().Tok == token.LBRACE {
			p.next()
			for {
				pats = append(pats, p.parseTernary())
				if !p.accept(token.COMMA) {
					break
				}
			}
			p.expect(token.RBRACE)
		}
		body := p.parseExpr()
		return &CExpr{Op: op, Vars: vars, Args: append([]*CExpr{body}, pats...)}
	}
	if p.isIdent("let") {
		p.next()
		name := p.next().Lit
		p.expect(token.ASSIGN)
		v := p.parseTernary()
		if !p.isIdent("in") {
			panic(fmt.Errorf("contract syntax: 'in' expected in %q", p.src))
		}
		p.next()
		body := p.parseExpr()
		return &CExpr{Op: "let", Name: name, Args: []*CExpr{v, body}}
	}
	return p.parseIff()
}

func (p *cparser) parseIff() *CExpr {
	l := p.parseImplies()
	for p.peek().Tok == tIFF {
		p.next()
		r := p.parseImplies()
		l = &CExpr{Op: "bin", Name: "<==>", Args: []*CExpr{l, r}}
	}
	return l
}

func (p *cparser) parseImplies() *CExpr {
	l := p.parseTernary()
	if p.peek().Tok == tIMPLIES {
		p.next()
		var r *CExpr
		if p.isIdent("forall") || p.isIdent("exists") || p.isIdent("let") {
			r = p.parseExpr()
		} else {
			r = p.parseImplies()
		}
		return &CExpr{Op: "bin", Name: "==>", Args: []*CExpr{l, r}}
	}
	return l
}

func (p *cparser) parseTernary() *CExpr {
	c := p.parseBin(1)
	if p.peek().Tok == tQUESTION {
		p.next()
		a := p.parseTernary()
		p.expect(token.COLON)
		b := p.parseTernary()
		return &CExpr{Op: "ite", Args: []*CExpr{c, a, b}}
	}
	return c
}

func binPrec(t token.Token) int {
	switch t {
	case token.LOR:
		return 1
	case token.LAND:
		return 2
	case token.EQL, token.NEQ, token.LSS, token.LEQ, token.GTR, token.GEQ:
		return 3
	case token.ADD, token.SUB, token.OR, token.XOR:
		return 4
	case token.MUL, token.QUO, token.REM, token.SHL, token.SHR, token.AND, token.AND_NOT:
		return 5
	}
	return 0
}

func (p *cparser) parseBin(prec int) *CExpr {
	l := p.parseUnary()
	for {
		t := p.peek()
		pr := binPrec(t.Tok)
		if pr < prec || pr == 0 {
			return l
		}
		p.next()
		var r *CExpr
		if (p.isIdent("forall") || p.isIdent("exists")) && pr <= 2 {
			r = p.parseExpr()
		} else {
			r = p.parseBin(pr + 1)
		}
		l = &CExpr{Op: "bin", Name: t.Tok.String(), Args: []*CExpr{l, r}}
	}
}

func (p *cparser) parseUnary() *CExpr {
	t := p.peek()
	switch t.Tok {
	case token.NOT, token.SUB, token.XOR, token.MUL, token.AND:
		p.next()
		x := p.parseUnary()
		return &CExpr{Op: "un", Name: t.Tok.String(), Args: []*CExpr{x}}
	}
	return p.parsePostfix()
}

func (p *cparser) parsePostfix() *CExpr {
	x := p.parsePrimary()
	for {
		switch p.peek().Tok {
		case token.PERIOD:
			p.next()
			n := p.next()
			x = &CExpr{Op: "field", Name: n.Lit, Args: []*CExpr{x}}
		case token.LBRACK:
			p.next()
			var lo, hi *CExpr
			if p.peek().Tok != token.COLON {
				lo = p.parseExpr()
			}
			if p.accept(token.COLON) {
				if p.peek().Tok != token.RBRACK {
					hi = p.parseExpr()
				}
				p.expect(token.RBRACK)
				x = &CExpr{Op: "slice", Args: []*CExpr{x, lo, hi}}
			} else {
				p.expect(token.RBRACK)
				x = &CExpr{Op: "index", Args: []*CExpr{x, lo}}
			}
		case token.LPAREN:
			if x.Op != "ident" && x.Op != "field" {
				return x
			}
			p.next()
			var args []*CExpr
			for p.peek().Tok != token.RPAREN {
				args = append(args, p.parseExpr())
				if !p.accept(token.COMMA) {
					break
				}
			}
			p.expect(token.RPAREN)
			name := x.Name
			if x.Op == "field" {
				// pkg.Func(...) or recv.method(...) : flatten qualified name when the base is an identifier
				if x.Args[0].Op == "ident" {
					name = x.Args[0].Name + "." + x.Name
				}
			}
			x = &CExpr{Op: "call", Name: name, Args: args}
		default:
			return x
		}
	}
}

func (p *cparser) parsePrimary() *CExpr {
	t := p.next()
	switch t.Tok {
	case token.IDENT:
		return &CExpr{Op: "ident", Name: t.Lit}
	case token.INT:
		return &CExpr{Op: "num", Name: t.Lit}
	case token.STRING:
		return &CExpr{Op: "str", Name: t.Lit}
	case token.CHAR:
		return &CExpr{Op: "char", Name: t.Lit}
	case token.LPAREN:
		e := p.parseExpr()
		p.expect(token.RPAREN)
		return &CExpr{Op: "paren", Args: []*CExpr{e}}
	case token.LBRACE:
		// set literal {a, b}
		var args []*CExpr
		for p.peek().Tok != token.RBRACE {
			args = append(args, p.parseExpr())
			if !p.accept(token.COMMA) {
				break
			}
		}
		p.expect(token.RBRACE)
		return &CExpr{Op: "setlit", Args: args}
	}
	panic(fmt.Errorf("contract syntax: unexpected %q in %q", tokText(t), p.src))
}

// ---- contract database

type Clause struct {
	Expr *CExpr
	Src  string
	Line string // file:line
	Tag  string // optional label, e.g. property ids attached to this clause
}

type LoopContract struct {
	Ordinal    int
	Invariants []Clause
	Decreases  *Clause
	Unroll     int // >0: unroll this many times (bounded); -1: unroll all
	Modifies   []Clause
}

type FuncContract struct {
	Key           string
	File          string
	Line          int
	Header        string
	Recv          string // receiver name in header ("" if none)
	Params        []string
	Results       []string
	Props         []string
	Logical       []CParam
	Requires      []Clause
	Ensures       []Clause
	Defines       []Clause // definitional postconditions: introduce a ghost/uninterpreted notion at this function; assumed at call sites, not checked against the body
	Modifies      []Clause
	ModAll        bool
	Pure          bool
	Assumed       bool
	Inline        bool
	NoReturn      bool
	Loops         map[int]*LoopContract
	Nilable       bool   // results may be nil pointers
	Trusted       string // reason when Assumed
	AllocBnd      int64
	Opaque        bool
	NilChecks     bool
	Lets          []letDef
	Afters        []afterDef
	Proves        []Clause // postconditions verified against the body even in an assumed contract
	PerSite       bool     // check every postcondition at each return site separately (smaller queries)
	FollowAliases bool
	Splits        []Clause // case splits over entry-state conditions: an undecided obligation is retried under E and under !E
	ReplayExpr    string   // Go boolean expression over p_<param> / r_<result>: the postcondition, for replaying models
	ReplayHelp    string   // helper file under /verif/replay appended to the generated test
	Atomic        bool
}

type letDef struct {
	Name string
	Expr *CExpr
}

// afterDef: "after <callee key> let NAME = expr" - expr is evaluated in the state right after a call to
// the callee returns (in the body of the function under contract) and NAME denotes that value in the
// postconditions; if the callee is called several times the last call wins.
type afterDef struct {
	Callee  string
	Name    string
	Expr    *CExpr
	Ordinal int // 0: after every call (the last one wins); N > 0: after the N-th call only
}

type SpecFunc struct {
	Name   string
	Params []CParam
	Ret    *CType
	Body   *CExpr // nil: uninterpreted
	Rec    bool
	File   string
}

type Axiom struct {
	Name  string
	Expr  *CExpr
	Lemma bool
	File  string
	Props []string
}

type ContractDB struct {
	Funcs      map[string]*FuncContract
	Specs      map[string]*SpecFunc
	Axioms     []*Axiom
	Sorts      map[string]bool
	Consts     map[string]*CExpr
	Ghosts     map[string]*CType
	Macros     map[string]*Macro
	NonNilMaps map[string]string
	// StableFields: "pkg.Type.field" -> comma-separated function keys that are the only writers of the field
	// (checked structurally on every run); such a field keeps its value across interference and unknown calls.
	StableFields map[string]string
	ObjInvs      map[string][]Clause
	Files        []string
	SpecOrder    []string
}

func NewContractDB() *ContractDB {
	return &ContractDB{Funcs: map[string]*FuncContract{}, Specs: map[string]*SpecFunc{}, Sorts: map[string]bool{}, Consts: map[string]*CExpr{}, Ghosts: map[string]*CType{}, Macros: map[string]*Macro{}, NonNilMaps: map[string]string{}, StableFields: map[string]string{}, ObjInvs: map[string][]Clause{}}
}

var clauseKeywords = map[string]bool{
	"property": true, "spec": true, "axiom": true, "lemma": true, "func": true, "requires": true, "ensures": true,
	"modifies": true, "pure": true, "inline": true, "assume": true, "loop": true, "invariant": true, "decreases": true,
	"unroll": true, "logical": true, "sort": true, "noreturn": true, "nilable": true, "trusted": true, "alloc_bound": true,
	"const": true, "stablefield": true, "opaque": true, "nilchecks": true, "let": true, "after": true, "ghost": true, "ghostfield": true, "macro": true, "mapinv": true, "replay": true, "replayhelp": true, "atomic": true, "persite": true, "split": true, "followaliases": true, "proves": true, "defines": true, "objinv": true,
}

type rawClause struct {
	kw   string
	text string
	line int
}

// LoadFile parses one contract file.  pkgName qualifies unqualified function
// headers.
func (db *ContractDB) LoadFile(path string) error {
	data, err := os.ReadFile(path)
	if err != nil {
		return err
	}
	isGo := strings.HasSuffix(path, ".go")
	pkgName := ""
	var clauses []rawClause
	for i, line := range strings.Split(string(data), "\n") {
		trim := strings.TrimSpace(line)
		if isGo {
			if strings.HasPrefix(trim, "package ") {
				pkgName = strings.TrimSpace(strings.TrimPrefix(trim, "package "))
				continue
			}
			if !strings.HasPrefix(trim, "//@") {
				continue
			}
			trim = strings.TrimSpace(strings.TrimPrefix(trim, "//@"))
		} else {
			if strings.HasPrefix(trim, "#") {
				continue
			}
			if strings.HasPrefix(trim, "package ") {
				pkgName = strings.TrimSpace(strings.TrimPrefix(trim, "package "))
				continue
			}
		}
		if trim == "" {
			continue
		}
		// strip trailing comments introduced by " // "
		if j := strings.Index(trim, " // "); j >= 0 {
			trim = strings.TrimSpace(trim[:j])
		}
		first := trim
		if j := strings.IndexAny(trim, " \t("); j >= 0 {
			first = trim[:j]
		}
		if first == "let" && (strings.HasSuffix(trim, " in") || strings.Contains(trim, " in ")) {
			first = "" // expression-level let … in …, not a clause
		}
		if clauseKeywords[first] {
			clauses = append(clauses, rawClause{first, strings.TrimSpace(trim[len(first):]), i + 1})
		} else if len(clauses) > 0 {
			clauses[len(clauses)-1].text += " " + trim
		} else {
			return fmt.Errorf("%s:%d: text before any clause", path, i+1)
		}
	}
	db.Files = append(db.Files, path)
	var cur *FuncContract
	var curLoop *LoopContract
	var fileProps []string
	mkClause := func(rc rawClause) (Clause, error) {
		e, err := ParseCExpr(rc.text)
		if err != nil {
			return Clause{}, fmt.Errorf("%s:%d: %v", path, rc.line, err)
		}
		return Clause{Expr: e, Src: rc.text, Line: fmt.Sprintf("%s:%d", filepath.Base(path), rc.line)}, nil
	}
	for _, rc := range clauses {
		switch rc.kw {
		case "property":
			ps := strings.Fields(strings.ReplaceAll(rc.text, ",", " "))
			if cur == nil {
				fileProps = ps
			} else {
				cur.Props = append(cur.Props, ps...)
			}
		case "macro":
			// macro name(a, b) = expr
			i := indexTopEq(rc.text)
			if i < 0 {
				return fmt.Errorf("%s:%d: macro NAME(params) = expr", path, rc.line)
			}
			hdr := strings.TrimSpace(rc.text[:i])
			op := strings.IndexByte(hdr, '(')
			if op < 0 || !strings.HasSuffix(hdr, ")") {
				return fmt.Errorf("%s:%d: macro NAME(params) = expr", path, rc.line)
			}
			body, err := ParseCExpr(rc.text[i+1:])
			if err != nil {
				return fmt.Errorf("%s:%d: %v", path, rc.line, err)
			}
			db.Macros[strings.TrimSpace(hdr[:op])] = &Macro{Params: paramNames(hdr[op+1 : len(hdr)-1]), Body: body}
			cur, curLoop = nil, nil
		case "objinv":
			// objinv <pkg.Type> : <expr over self>   — representation invariant assumed for receivers of that type
			parts := strings.SplitN(rc.text, ":", 2)
			if len(parts) != 2 {
				return fmt.Errorf("%s:%d: objinv Type : expr", path, rc.line)
			}
			e, err := ParseCExpr(parts[1])
			if err != nil {
				return fmt.Errorf("%s:%d: %v", path, rc.line, err)
			}
			tn := strings.TrimSpace(parts[0])
			if !strings.Contains(tn, ".") {
				tn = pkgName + "." + tn
			}
			db.ObjInvs[tn] = append(db.ObjInvs[tn], Clause{Expr: e, Src: strings.TrimSpace(parts[1]), Line: fmt.Sprintf("%s:%d", filepath.Base(path), rc.line)})
			cur, curLoop = nil, nil
		case "mapinv":
			// mapinv nonnil <map type key> : <reason>
			rest := strings.TrimSpace(strings.TrimPrefix(strings.TrimSpace(rc.text), "nonnil"))
			parts := strings.SplitN(rest, ":", 2)
			why := ""
			if len(parts) == 2 {
				why = strings.TrimSpace(parts[1])
			}
			db.NonNilMaps[strings.TrimSpace(parts[0])] = why
		case "stablefield":
			// stablefield <pkg.Type.field> = <writer funcKey>,...
			parts := strings.SplitN(rc.text, "=", 2)
			if len(parts) != 2 {
				return fmt.Errorf("%s:%d: stablefield <pkg.Type.field> = <writers>", path, rc.line)
			}
			db.StableFields[strings.TrimSpace(parts[0])] = strings.TrimSpace(parts[1])
		case "sort":
			db.Sorts[strings.TrimSpace(rc.text)] = true
		case "ghost", "ghostfield":
			toks, err := lexExpr(rc.text)
			if err != nil {
				return fmt.Errorf("%s:%d: %v", path, rc.line, err)
			}
			p := &cparser{toks: toks, src: rc.text}
			var gerr error
			func() {
				defer func() {
					if r := recover(); r != nil {
						gerr = fmt.Errorf("%s:%d: %v", path, rc.line, r)
					}
				}()
				name := p.next().Lit
				if rc.kw == "ghostfield" {
					// Type.$name T   (lexed as Type . $ name? '$' is illegal in Go: written Type.name, stored as Type.$name)
					for p.peek().Tok == token.PERIOD {
						p.next()
						name += "." + p.next().Lit
					}
					i := strings.LastIndexByte(name, '.')
					name = name[:i] + ".$" + name[i+1:]
				}
				db.Ghosts[name] = p.parseType()
			}()
			if gerr != nil {
				return gerr
			}
		case "const":
			parts := strings.SplitN(rc.text, "=", 2)
			if len(parts) != 2 {
				return fmt.Errorf("%s:%d: const NAME = expr", path, rc.line)
			}
			e, err := ParseCExpr(parts[1])
			if err != nil {
				return fmt.Errorf("%s:%d: %v", path, rc.line, err)
			}
			db.Consts[strings.TrimSpace(parts[0])] = e
		case "spec":
			sf, err := parseSpec(rc.text)
			if err != nil {
				return fmt.Errorf("%s:%d: %v", path, rc.line, err)
			}
			sf.File = path
			if _, dup := db.Specs[sf.Name]; dup {
				return fmt.Errorf("%s:%d: duplicate spec %s", path, rc.line, sf.Name)
			}
			db.Specs[sf.Name] = sf
			db.SpecOrder = append(db.SpecOrder, sf.Name)
			cur, curLoop = nil, nil
		case "axiom", "lemma":
			parts := strings.SplitN(rc.text, ":", 2)
			if len(parts) != 2 {
				return fmt.Errorf("%s:%d: %s NAME: expr", path, rc.line, rc.kw)
			}
			e, err := ParseCExpr(parts[1])
			if err != nil {
				return fmt.Errorf("%s:%d: %v", path, rc.line, err)
			}
			axName := strings.TrimSpace(parts[0])
			axProps := fileProps
			if i := strings.IndexByte(axName, '.'); i > 0 {
				axProps = append([]string{axName[:i]}, fileProps...)
			}
			db.Axioms = append(db.Axioms, &Axiom{Name: axName, Expr: e, Lemma: rc.kw == "lemma", File: path, Props: axProps})
			cur, curLoop = nil, nil
		case "func":
			fc, err := parseFuncHeader(rc.text, pkgName)
			if err != nil {
				return fmt.Errorf("%s:%d: %v", path, rc.line, err)
			}
			fc.File = path
			fc.Line = rc.line
			fc.Props = append(fc.Props, fileProps...)
			fc.Loops = map[int]*LoopContract{}
			if _, dup := db.Funcs[fc.Key]; dup {
				return fmt.Errorf("%s:%d: duplicate contract for %s", path, rc.line, fc.Key)
			}
			db.Funcs[fc.Key] = fc
			cur, curLoop = fc, nil
		default:
			if cur == nil {
				return fmt.Errorf("%s:%d: clause %q outside a func", path, rc.line, rc.kw)
			}
			switch rc.kw {
			case "requires", "ensures", "proves", "invariant", "decreases", "defines", "split":
				cl, err := mkClause(rc)
				if err != nil {
					return err
				}
				switch rc.kw {
				case "split":
					cur.Splits = append(cur.Splits, cl)
				case "requires":
					cur.Requires = append(cur.Requires, cl)
				case "ensures":
					cur.Ensures = append(cur.Ensures, cl)
				case "proves":
					// a postcondition that is verified against the body even when the rest of the contract is assumed
					cur.Proves = append(cur.Proves, cl)
				case "defines":
					cur.Defines = append(cur.Defines, cl)
				case "invariant":
					if curLoop == nil {
						return fmt.Errorf("%s:%d: invariant outside loop", path, rc.line)
					}
					curLoop.Invariants = append(curLoop.Invariants, cl)
				case "decreases":
					if curLoop == nil {
						return fmt.Errorf("%s:%d: decreases outside loop", path, rc.line)
					}
					curLoop.Decreases = &cl
				}
			case "modifies":
				if strings.TrimSpace(rc.text) == "*" {
					if curLoop != nil {
						return fmt.Errorf("%s:%d: loop modifies *", path, rc.line)
					}
					cur.ModAll = true
					break
				}
				for _, part := range splitTop(rc.text, ',') {
					e, err := ParseCExpr(part)
					if err != nil {
						return fmt.Errorf("%s:%d: %v", path, rc.line, err)
					}
					cl := Clause{Expr: e, Src: part, Line: fmt.Sprintf("%s:%d", filepath.Base(path), rc.line)}
					if curLoop != nil {
						curLoop.Modifies = append(curLoop.Modifies, cl)
					} else {
						cur.Modifies = append(cur.Modifies, cl)
					}
				}
			case "logical":
				p := &cparser{src: rc.text}
				toks, err := lexExpr(rc.text)
				if err != nil {
					return err
				}
				p.toks = toks
				name := p.next().Lit
				ty := p.parseType()
				cur.Logical = append(cur.Logical, CParam{name, ty})
			case "let":
				parts := strings.SplitN(rc.text, "=", 2)
				if len(parts) != 2 {
					return fmt.Errorf("%s:%d: let NAME = expr", path, rc.line)
				}
				e, err := ParseCExpr(parts[1])
				if err != nil {
					return fmt.Errorf("%s:%d: %v", path, rc.line, err)
				}
				cur.Lets = append(cur.Lets, letDef{strings.TrimSpace(parts[0]), e})
			case "after":
				// after <callee> let NAME = expr
				f := strings.Fields(rc.text)
				if len(f) < 5 || f[1] != "let" || !strings.Contains(rc.text, "=") {
					return fmt.Errorf("%s:%d: after <callee> let NAME = expr", path, rc.line)
				}
				parts := strings.SplitN(rc.text, "=", 2)
				e, err := ParseCExpr(parts[1])
				if err != nil {
					return fmt.Errorf("%s:%d: %v", path, rc.line, err)
				}
				callee, ord := f[0], 0
				if i := strings.IndexByte(callee, '#'); i > 0 {
					// after <callee>#N let ... : captured after the N-th call of <callee> only
					fmt.Sscan(callee[i+1:], &ord)
					callee = callee[:i]
				}
				cur.Afters = append(cur.Afters, afterDef{callee, f[2], e, ord})
			case "replay":
				cur.ReplayExpr = strings.TrimSpace(rc.text)
			case "replayhelp":
				cur.ReplayHelp = strings.TrimSpace(rc.text)
			case "persite":
				cur.PerSite = true
			case "atomic":
				cur.Atomic = true
			case "pure":
				cur.Pure = true
			case "inline":
				cur.Inline = true
			case "assume":
				cur.Assumed = true
				cur.Trusted = rc.text
			case "trusted":
				cur.Assumed = true
				cur.Trusted = rc.text
			case "noreturn":
				cur.NoReturn = true
			case "nilable":
				cur.Nilable = true
			case "followaliases":
				cur.FollowAliases = true
			case "opaque":
				cur.Opaque = true
			case "nilchecks":
				cur.NilChecks = true
			case "alloc_bound":
				fmt.Sscan(rc.text, &cur.AllocBnd)
			case "loop":
				var n int
				fmt.Sscan(rc.text, &n)
				curLoop = &LoopContract{Ordinal: n}
				cur.Loops[n] = curLoop
			case "unroll":
				if curLoop == nil {
					return fmt.Errorf("%s:%d: unroll outside loop", path, rc.line)
				}
				if strings.TrimSpace(rc.text) == "all" {
					curLoop.Unroll = -1
				} else {
					fmt.Sscan(rc.text, &curLoop.Unroll)
				}
			}
		}
	}
	return nil
}

func splitTop(s string, sep byte) []string {
	var out []string
	depth := 0
	last := 0
	for i := 0; i < len(s); i++ {
		switch s[i] {
		case '(', '[', '{':
			depth++
		case ')', ']', '}':
			depth--
		default:
			if s[i] == sep && depth == 0 {
				out = append(out, strings.TrimSpace(s[last:i]))
				last = i + 1
			}
		}
	}
	if strings.TrimSpace(s[last:]) != "" {
		out = append(out, strings.TrimSpace(s[last:]))
	}
	return out
}

func parseSpec(text string) (*SpecFunc, error) {
	// name(params) type [= body]
	var body string
	hdr := text
	if i := indexTopEq(text); i >= 0 {
		hdr = text[:i]
		body = text[i+1:]
	}
	toks, err := lexExpr(hdr)
	if err != nil {
		return nil, err
	}
	p := &cparser{toks: toks, src: hdr}
	var sf *SpecFunc
	func() {
		defer func() {
			if r := recover(); r != nil {
				err = fmt.Errorf("%v", r)
			}
		}()
		rec := false
		if p.isIdent("rec") {
			p.next()
			rec = true
		}
		name := p.next().Lit
		sf = &SpecFunc{Name: name, Rec: rec}
		p.expect(token.LPAREN)
		for p.peek().Tok != token.RPAREN {
			var names []string
			names = append(names, p.next().Lit)
			for p.accept(token.COMMA) {
				names = append(names, p.next().Lit)
			}
			ty := p.parseType()
			for _, n := range names {
				sf.Params = append(sf.Params, CParam{n, ty})
			}
			if !p.accept(token.COMMA) {
				break
			}
		}
		p.expect(token.RPAREN)
		sf.Ret = p.parseType()
	}()
	if err != nil {
		return nil, err
	}
	if body != "" {
		sf.Body, err = ParseCExpr(body)
		if err != nil {
			return nil, err
		}
	}
	return sf, nil
}

// indexTopEq finds the first '=' at depth 0 that is not part of ==, <=, >=, !=, ==>.
func indexTopEq(s string) int {
	depth := 0
	for i := 0; i < len(s); i++ {
		switch s[i] {
		case '(', '[', '{':
			depth++
		case ')', ']', '}':
			depth--
		case '=':
			if depth == 0 {
				prev := byte(' ')
				if i > 0 {
					prev = s[i-1]
				}
				next := byte(' ')
				if i+1 < len(s) {
					next = s[i+1]
				}
				if prev != '=' && prev != '<' && prev != '>' && prev != '!' && next != '=' {
					return i
				}
			}
		}
	}
	return -1
}

// parseFuncHeader understands
//
//	(s *SlidingWindow) Mark(seq uint64) (ok bool)
//	bytes.Equal(a, b []byte) (r bool)
//	(b *bytes.Buffer) Write(p []byte) (n int, err error)
func parseFuncHeader(text, pkgName string) (*FuncContract, error) {
	fc := &FuncContract{Header: text}
	s := strings.TrimSpace(text)
	recvType := ""
	if strings.HasPrefix(s, "(") {
		end := matchParen(s, 0)
		if end < 0 {
			return nil, fmt.Errorf("bad receiver in %q", text)
		}
		recv := strings.TrimSpace(s[1:end])
		s = strings.TrimSpace(s[end+1:])
		fs := strings.Fields(recv)
		if len(fs) == 2 {
			fc.Recv = fs[0]
			recvType = strings.TrimPrefix(fs[1], "*")
		} else if len(fs) == 1 {
			recvType = strings.TrimPrefix(fs[0], "*")
			fc.Recv = "recv"
		} else {
			return nil, fmt.Errorf("bad receiver in %q", text)
		}
	}
	open := strings.IndexByte(s, '(')
	if open < 0 {
		return nil, fmt.Errorf("missing parameter list in %q", text)
	}
	name := strings.TrimSpace(s[:open])
	end := matchParen(s, open)
	if end < 0 {
		return nil, fmt.Errorf("unbalanced parameters in %q", text)
	}
	fc.Params = paramNames(s[open+1 : end])
	rest := strings.TrimSpace(s[end+1:])
	if strings.HasPrefix(rest, "(") {
		e2 := matchParen(rest, 0)
		if e2 < 0 {
			return nil, fmt.Errorf("unbalanced results in %q", text)
		}
		fc.Results = paramNames(rest[1:e2])
	} else if rest != "" {
		fc.Results = []string{"result"}
	}
	switch {
	case recvType != "":
		if strings.Contains(recvType, ".") {
			fc.Key = recvType + "." + name
		} else {
			fc.Key = pkgName + "." + recvType + "." + name
		}
	case strings.Contains(name, "."):
		fc.Key = name
	default:
		fc.Key = pkgName + "." + name
	}
	return fc, nil
}

func matchParen(s string, open int) int {
	depth := 0
	for i := open; i < len(s); i++ {
		switch s[i] {
		case '(':
			depth++
		case ')':
			depth--
			if depth == 0 {
				return i
			}
		}
	}
	return -1
}

func paramNames(s string) []string {
	var out []string
	for _, part := range splitTop(s, ',') {
		fs := strings.Fields(part)
		if len(fs) == 0 {
			continue
		}
		out = append(out, fs[0])
	}
	return out
}

type Macro struct {
	Params []string
	Body   *CExpr
}
