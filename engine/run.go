package main

// hopvc check <property>: generate, discharge, decide, write evidence.

import (
	"bufio"
	"encoding/json"
	"fmt"
	"os"
	"path/filepath"
	"runtime"
	"sort"
	"strconv"
	"strings"
	"sync"
	"time"

	"golang.org/x/tools/go/ssa"
)

type finding struct {
	Prop, Func, Kind, Site, Text string
	Fixed                        bool
	matched                      bool
}

func loadFindings() ([]*finding, error) {
	f, err := os.Open(filepath.Join(verifDir(), "known_findings.txt"))
	if err != nil {
		if os.IsNotExist(err) {
			return nil, nil
		}
		return nil, err
	}
	defer f.Close()
	var out []*finding
	sc := bufio.NewScanner(f)
	for sc.Scan() {
		line := strings.TrimSpace(sc.Text())
		if line == "" || strings.HasPrefix(line, "#") {
			continue
		}
		fd := &finding{}
		if strings.HasPrefix(line, "fixed:") {
			fd.Fixed = true
			line = strings.TrimSpace(strings.TrimPrefix(line, "fixed:"))
		}
		rest := line
		for {
			rest = strings.TrimSpace(rest)
			eq := strings.IndexByte(rest, '=')
			sp := strings.IndexByte(rest, ' ')
			if eq < 0 || (sp >= 0 && sp < eq) {
				break
			}
			key := rest[:eq]
			var val string
			if eq+1 < len(rest) && rest[eq+1] == '"' {
				end := strings.Index(rest[eq+2:], "\"")
				if end < 0 {
					break
				}
				val = rest[eq+2 : eq+2+end]
				rest = rest[eq+2+end+1:]
			} else {
				end := strings.IndexByte(rest[eq+1:], ' ')
				if end < 0 {
					val = rest[eq+1:]
					rest = ""
				} else {
					val = rest[eq+1 : eq+1+end]
					rest = rest[eq+1+end:]
				}
			}
			switch key {
			case "property":
				fd.Prop = val
			case "func":
				fd.Func = val
			case "kind":
				fd.Kind = val
			case "site":
				fd.Site = val
			default:
				rest = key + "=" + val + " " + rest
				goto done
			}
		}
	done:
		fd.Text = strings.TrimSpace(rest)
		out = append(out, fd)
	}
	return out, sc.Err()
}

// siteText returns the trimmed source line an obligation points at.
func siteText(pos string) string {
	i := strings.LastIndexByte(pos, ':')
	if i < 0 {
		return ""
	}
	file := pos[:i]
	ln, _ := strconv.Atoi(pos[i+1:])
	if !filepath.IsAbs(file) {
		file = filepath.Join(repoDir(), file)
	}
	data, err := os.ReadFile(file)
	if err != nil {
		return ""
	}
	lines := strings.Split(string(data), "\n")
	if ln < 1 || ln > len(lines) {
		return ""
	}
	return strings.Join(strings.Fields(lines[ln-1]), " ")
}

func oblFunc(name string) string {
	if i := strings.IndexByte(name, '/'); i >= 0 {
		return name[:i]
	}
	return name
}

type oblRecord struct {
	Name    string `json:"name"`
	Kind    string `json:"kind"`
	Pos     string `json:"pos,omitempty"`
	Status  string `json:"status"`
	Backend string `json:"backend,omitempty"`
	Ms      int64  `json:"ms"`
}

type funcTask struct {
	key  string
	fn   *ssa.Function
	opts ExecOpts
	mode string // verify | sweep
	rep  *FuncReport
}

func cmdCheck(args []string) int {
	if len(args) < 1 {
		fmt.Fprintln(os.Stderr, "usage: hopvc check <property> [--tier quick|thorough]")
		return 2
	}
	id := args[0]
	tier := os.Getenv("VERIF_TIER")
	for i := 1; i < len(args); i++ {
		if args[i] == "--tier" && i+1 < len(args) {
			tier = args[i+1]
			i++
		}
	}
	if tier != "thorough" {
		tier = "quick"
	}
	seed, _ := strconv.Atoi(os.Getenv("VERIF_SEED"))
	start := time.Now()
	home := verifDir()
	if d := os.Getenv("HOPVC_OUT"); d != "" {
		home = d // mutant / selftest runs write their evidence and replays elsewhere
	}
	evPath := filepath.Join(home, "evidence", id+".json")
	os.MkdirAll(filepath.Dir(evPath), 0o755)
	os.Remove(evPath)
	replayDir := filepath.Join(home, "replays", id)
	os.RemoveAll(replayDir)
	os.MkdirAll(replayDir, 0o755)

	engineError := func(format string, a ...interface{}) int {
		msg := fmt.Sprintf(format, a...)
		fmt.Fprintln(os.Stderr, "hopvc: engine error:", msg)
		// An engine that cannot run cannot prove anything: report as a violation without input.
		rp := filepath.Join(replayDir, "engine-error.json")
		writeJSON(rp, map[string]interface{}{"property": id, "obligation": "engine", "reason": msg})
		fmt.Printf("VIOLATION property=%s replay=%s obligation=engine %s no-failing-input-found\n", id, rel(home, rp), oneLine(msg))
		writeEvidence(evPath, id, tier, seed, nil, nil, nil, []string{"engine error: " + msg}, time.Since(start), 1, nil)
		return 1
	}

	pc, err := loadPropConfig(id)
	if err != nil {
		return engineError("%v", err)
	}
	eng, err := Load(pc.Packages)
	if err != nil {
		return engineError("%v", err)
	}
	trace("loaded")
	findings, err := loadFindings()
	if err != nil {
		return engineError("%v", err)
	}

	// functions under contract tagged with this property, plus the configured lists
	seen := map[string]bool{}
	var tasks []*funcTask
	addTask := func(key, mode string) {
		if seen[key] {
			return
		}
		seen[key] = true
		t := &funcTask{key: key, mode: mode, fn: eng.FuncByKey(key)}
		t.opts = ExecOpts{NilChecks: pc.NilChecks, AllocBound: pc.AllocBound, SafetyOnly: mode == "sweep"}
		for _, ns := range pc.NoSafety {
			if ns == key || ns == "*" {
				t.opts.NoSafety = true
			}
		}
		tasks = append(tasks, t)
	}
	for _, k := range pc.Verify {
		addTask(k, "verify")
	}
	var tagged []string
	for k, fc := range eng.db.Funcs {
		if fc.Assumed && len(fc.Proves) == 0 {
			continue
		}
		for _, p := range fc.Props {
			if p == id {
				tagged = append(tagged, k)
			}
		}
	}
	sort.Strings(tagged)
	for _, k := range tagged {
		addTask(k, "verify")
	}
	for _, k := range pc.Sweep {
		addTask(k, "sweep")
	}

	// generate
	var wg sync.WaitGroup
	sem := make(chan struct{}, runtime.NumCPU())
	for _, t := range tasks {
		if t.fn == nil {
			continue
		}
		wg.Add(1)
		sem <- struct{}{}
		go func(t *funcTask) {
			defer wg.Done()
			defer func() { <-sem }()
			t.rep = eng.VerifyFunc(t.fn, t.opts)
		}(t)
	}
	wg.Wait()
	trace("generated")

	timeout := 10000
	if pc.TimeoutMs > 0 {
		timeout = pc.TimeoutMs
	}
	if tier == "thorough" && timeout < 120000 {
		// (never below what the quick tier of this property is given)
		timeout = 120000
	}
	if v, err := strconv.Atoi(os.Getenv("HOPVC_TIMEOUT_MS")); err == nil && v > 0 {
		timeout = v
	}
	work := filepath.Join(os.TempDir(), fmt.Sprintf("hopvc.%d", os.Getpid()))
	if !keepSMT {
		defer os.RemoveAll(work)
	}
	// discharge, all functions in parallel (bounded by solver slots)
	slots := make(chan struct{}, 5)
	for _, t := range tasks {
		if t.rep == nil {
			continue
		}
		var obls []*Obligation
		for _, o := range t.rep.Obligations {
			skip := false
			if tier != "thorough" {
				for _, p := range pc.ThoroughOnly {
					if strings.HasPrefix(o.Name, p) {
						skip = true
					}
				}
			}
			if skip {
				o.Status = "skipped"
				continue
			}
			if len(pc.SweepKinds) > 0 && t.mode == "sweep" {
				ok := false
				for _, k := range pc.SweepKinds {
					if k == o.Kind {
						ok = true
					}
				}
				if !ok {
					o.Status = "skipped"
					continue
				}
			}
			obls = append(obls, o)
		}
		wg.Add(1)
		go func(t *funcTask, obls []*Obligation) {
			defer wg.Done()
			dischargeShared(t.rep.fx, obls, dischargeOpts{timeoutMs: timeout, all: tier == "thorough", workdir: work}, slots)
		}(t, obls)
	}
	// lemmas
	lemmaObls, lemmaFx, lerr := eng.lemmaObligations(id)
	if lerr != nil {
		return engineError("lemma: %v", lerr)
	}
	if len(lemmaObls) > 0 {
		wg.Add(1)
		go func() {
			defer wg.Done()
			dischargeShared(lemmaFx, lemmaObls, dischargeOpts{timeoutMs: timeout, all: tier == "thorough", workdir: work}, slots)
		}()
	}
	wg.Wait()
	trace("discharged")

	// structural obligations (call-graph / frame sweeps)
	structObls := eng.structuralObligations(pc)
	// syntactic frame check of every verified function with an explicit modifies clause
	for _, t := range tasks {
		if t.fn != nil && t.mode == "verify" {
			structObls = append(structObls, eng.frameObligations(t.fn, eng.db.Funcs[t.key])...)
		}
	}

	// ---- verdicts
	var records []oblRecord
	var samples []interface{}
	total, discharged := 0, 0
	violations := 0
	knownCount := 0
	coverOK, coverUnknown, coverGround := 0, 0, 0
	var solverMs int64
	backends := map[string]int{}
	assumptions := map[string]bool{}
	var funcsUnder []string
	var boundedNotes []string
	var printed []string
	reportViolation := func(name, reason string, payload map[string]interface{}, reproduced bool) {
		violations++
		rp := filepath.Join(replayDir, sanitize(name)+".json")
		payload["property"] = id
		payload["obligation"] = name
		payload["reason"] = reason
		writeJSON(rp, payload)
		suffix := ""
		if !reproduced {
			suffix = " no-failing-input-found"
		}
		printed = append(printed, fmt.Sprintf("VIOLATION property=%s replay=%s obligation=%s %s%s", id, rel(home, rp), name, oneLine(reason), suffix))
	}
	matchFinding := func(o *Obligation) *finding {
		fn := oblFunc(o.Name)
		site := siteText(o.Pos)
		for _, f := range findings {
			if f.Fixed || f.Prop != id {
				continue
			}
			if f.Func == fn && f.Kind == o.Kind && (f.Site == "" || f.Site == site) {
				return f
			}
		}
		return nil
	}
	for _, t := range tasks {
		if t.fn == nil {
			reportViolation(t.key+"/target", "contract-target-missing: function "+t.key+" no longer exists", map[string]interface{}{}, false)
			continue
		}
		rep := t.rep
		mode := t.mode
		if rep.HasContract && mode == "verify" {
			funcsUnder = append(funcsUnder, t.key)
		} else {
			funcsUnder = append(funcsUnder, t.key+" (safety sweep)")
		}
		if rep.OutOfSubset != "" {
			reportViolation(t.key+"/subset", "cannot generate obligations: "+rep.OutOfSubset, map[string]interface{}{}, false)
		}
		for _, n := range rep.Notes {
			assumptions[n] = true
		}
		for _, n := range rep.Dropped {
			assumptions["abstracted construct: "+n] = true
		}
		if rep.Unannotated > 0 {
			assumptions[fmt.Sprintf("%s: %d loop(s) without invariant are cut by havoc of everything they modify (sound, imprecise)", t.key, rep.Unannotated)] = true
		}
		boundedNotes = append(boundedNotes, rep.Bounded...)
		for _, o := range rep.Obligations {
			if o.Status == "skipped" {
				continue
			}
			solverMs += o.Ms
			if o.Cover {
				switch o.Status {
				case "sat":
					coverOK++
					if strings.HasSuffix(o.Backend, "+ground") {
						coverGround++
					}
				case "unsat":
					reportViolation(o.Name, "vacuity guard: "+o.Desc+" — now unsatisfiable, the contract proves nothing", map[string]interface{}{"solver": o.Output}, false)
				default:
					coverUnknown++
				}
				continue
			}
			total++
			records = append(records, oblRecord{o.Name, o.Kind, o.Pos, o.Status, o.Backend, o.Ms})
			if o.Status == "unsat" {
				discharged++
				backends[o.Backend]++
				if len(samples) < 4 && o.Backend != "simplifier" {
					samples = append(samples, map[string]interface{}{"obligation": o.Name, "kind": o.Kind, "at": o.Pos, "goal": o.Desc, "backend": o.Backend, "ms": o.Ms,
						"smt_goal": rep.fx.c.Show(rep.fx.c.Implies(o.PC, o.Goal))})
				}
				continue
			}
			// failed or undecided
			if f := matchFinding(o); f != nil {
				f.matched = true
				knownCount++
				total--
				records = records[:len(records)-1]
				continue
			}
			payload := map[string]interface{}{"kind": o.Kind, "at": o.Pos, "goal": o.Desc, "status": o.Status, "solver_output": truncate(o.Output, 20000), "site": siteText(o.Pos)}
			reproduced := false
			if o.Status == "sat" {
				model := parseModel(o.Output)
				// prefer a small model: re-solve with every input length bounded, so that the
				// counterexample can be materialised and replayed
				if sm := smallModel(rep.fx, o, work); sm != nil {
					model = sm
					payload["model_note"] = "re-solved with input lengths <= 4096 to obtain a replayable counterexample"
				}
				payload["model"] = namedModel(o, model)
				rr := tryReplay(eng, t, o, model, replayDir)
				if rr != nil {
					payload["replay"] = rr
					reproduced = rr.Reproduced
				}
			}
			reason := fmt.Sprintf("%s obligation failed (%s) at %s: %s", o.Kind, o.Status, o.Pos, o.Desc)
			if o.Status == "disagree" {
				reason = "solvers disagree on " + o.Name + ": " + o.Output
			}
			reportViolation(o.Name, reason, payload, reproduced)
		}
	}
	for _, o := range lemmaObls {
		total++
		solverMs += o.Ms
		records = append(records, oblRecord{o.Name, o.Kind, o.Pos, o.Status, o.Backend, o.Ms})
		if o.Status == "unsat" {
			discharged++
			backends[o.Backend]++
			continue
		}
		reportViolation(o.Name, "lemma not proved ("+o.Status+"): "+o.Desc, map[string]interface{}{"solver_output": truncate(o.Output, 20000)}, false)
	}
	for _, so := range structObls {
		total++
		records = append(records, oblRecord{so.Name, "structural", "", map[bool]string{true: "unsat", false: "failed"}[so.OK], "ssa-scan", 0})
		if so.OK {
			discharged++
			backends["ssa-scan"]++
			continue
		}
		known := false
		for _, f := range findings {
			if !f.Fixed && f.Prop == id && f.Func == so.Name && f.Kind == "structural" {
				f.matched = true
				known = true
			}
		}
		if !known && len(so.Offenders) > 0 {
			// per-site matching: every offending site must be a listed finding
			all := true
			var rest []string
			for _, of := range so.Offenders {
				hit := false
				for _, f := range findings {
					if !f.Fixed && f.Prop == id && f.Kind == "structural" && f.Func == of.Func && f.Site == siteText(of.Pos) {
						f.matched = true
						hit = true
					}
				}
				if !hit {
					all = false
					rest = append(rest, of.Func+" at "+of.Pos+" ("+of.What+")")
				}
			}
			if all {
				known = true
			} else {
				so.Detail = "sites not listed as known findings: " + strings.Join(rest, "; ")
			}
		}
		if known {
			knownCount++
			total--
			records = records[:len(records)-1]
			continue
		}
		reportViolation(so.Name, "structural obligation failed: "+so.Detail, map[string]interface{}{"detail": so.Detail}, false)
	}
	var knownLines []string
	for _, f := range findings {
		if f.Prop == id && !f.Fixed && f.matched {
			knownLines = append(knownLines, fmt.Sprintf("KNOWN-FINDING: property=%s %s [func=%s kind=%s]", id, f.Text, f.Func, f.Kind))
		}
	}
	sort.Strings(knownLines)
	for _, l := range knownLines {
		fmt.Println(l)
	}
	for _, l := range printed {
		fmt.Println(l)
	}
	sort.Strings(funcsUnder)
	var asm []string
	for a := range assumptions {
		asm = append(asm, a)
	}
	for _, a := range pc.Assumptions {
		asm = append(asm, a)
	}
	for _, a := range pc.NotCovered {
		asm = append(asm, "not covered: "+a)
	}
	sort.Strings(asm)
	cov := map[string]interface{}{
		"functions_under_contract": funcsUnder,
		"obligation_list":          records,
		"backends":                 backends,
		"solver_time_s":            float64(solverMs) / 1000,
		"bounded":                  boundedNotes,
		"known_findings":           knownCount,
		"vacuity_covers_sat":       coverOK,
		"vacuity_covers_sat_over_quantifier_free_facts_only": coverGround,
		"vacuity_covers_undecided":                           coverUnknown,
		"contract_files":                                     relAll(eng.db.Files),
		"per_obligation_timeout_ms":                          timeout,
	}
	writeEvidence(evPath, id, tier, seed, cov, samples, asm, nil, time.Since(start), violations, &[2]int{total, discharged})
	fmt.Printf("hopvc: property %s tier %s: %d obligations, %d discharged, %d known findings, %d violations, %d functions, %.1fs\n",
		id, tier, total, discharged, knownCount, violations, len(funcsUnder), time.Since(start).Seconds())
	if violations > 0 {
		return 1
	}
	return 0
}

func relAll(fs []string) []string {
	var out []string
	for _, f := range fs {
		out = append(out, f)
	}
	return out
}

func truncate(s string, n int) string {
	if len(s) > n {
		return s[:n] + "…"
	}
	return s
}

func oneLine(s string) string {
	s = strings.Join(strings.Fields(s), " ")
	if len(s) > 300 {
		s = s[:300] + "…"
	}
	return s
}

func rel(home, p string) string {
	if r, err := filepath.Rel(home, p); err == nil {
		return r
	}
	return p
}

func writeJSON(path string, v interface{}) {
	data, _ := json.MarshalIndent(v, "", " ")
	os.WriteFile(path, data, 0o644)
}

func writeEvidence(path, id, tier string, seed int, cov map[string]interface{}, samples []interface{}, asm []string, extra []string, wall time.Duration, violations int, counts *[2]int) {
	if cov == nil {
		cov = map[string]interface{}{}
	}
	if counts != nil {
		cov["obligations"] = counts[0]
		cov["discharged"] = counts[1]
	} else {
		cov["obligations"] = 0
		cov["discharged"] = 0
	}
	cov["checker_cmd"] = "./bin/hopvc check " + id + " --tier " + tier + "   (VCs from go/ssa of /repo's working tree; race of z3-new 5.1.0, z3 4.8.12, cvc5 1.0.x per obligation)"
	cov["trusted_base"] = []string{
		"go/packages + go/types + go/ssa (golang.org/x/tools v0.29.0) as the front end",
		"hopvc's SSA-to-SMT translation (engine/*.go): machine integers as bit-vectors, Burstall heap",
		"SMT solvers z3 4.8.12, z3 5.1.0, cvc5 1.0.x (an unsat from any one is accepted in the quick tier; all are compared in the thorough tier)",
		"assumed contracts of standard-library and dependency functions in /verif/prelude/*.spec and `assume` clauses in zz_contracts_verif.go",
	}
	if samples == nil {
		samples = []interface{}{}
	}
	cov["samples"] = samples
	if asm == nil {
		asm = []string{}
	}
	asm = append(asm, extra...)
	ev := map[string]interface{}{
		"property_id": id, "tier": tier, "seed": seed, "level": "proof", "coverage": cov,
		"assumptions": asm, "wall_s": wall.Seconds(), "violations": violations,
	}
	writeJSON(path, ev)
}

// dischargeShared is discharge with a solver-slot semaphore shared by all functions.
func dischargeShared(fx *FnExec, obls []*Obligation, opt dischargeOpts, slots chan struct{}) {
	defer func() { fx.c.noPrune = false }()
	c := fx.c
	var wg sync.WaitGroup
	rngMemo := map[*Term]bool{}
	quantMemo := map[*Term]bool{}
	for _, o := range obls {
		c.noPrune = o.Cover
		goal := c.Implies(o.PC, o.Goal)
		if goal.IsTrue() {
			o.Status, o.Backend = "unsat", "simplifier"
			continue
		}
		var vals []*Term
		var valNames []string
		for _, v := range o.Values {
			if !v.T.Sort.IsArr() {
				vals = append(vals, v.T)
				valNames = append(valNames, v.Name)
			}
		}
		if isSafetyKind(o.Kind) && !mentionsRng(goal, rngMemo) {
			// relevance filter (dropping hypotheses is always sound): see discharge in check.go
			var keep []*Term
			for _, a := range o.Assume {
				if !mentionsRng(a, rngMemo) {
					keep = append(keep, a)
				}
			}
			o.Assume = keep
		}
		groundScript := ""
		if o.Cover {
			// fallback for an undecided cover: the same query over the quantifier-free facts only
			var ground []*Term
			for _, a := range o.Assume {
				if !containsQuant(a, quantMemo) {
					ground = append(ground, a)
				}
			}
			if len(ground) < len(o.Assume) {
				groundScript = c.Query(ground, goal, nil, opt.timeoutMs)
			}
		}
		// the model values are only requested when a first, lean query has answered sat
		script := c.Query(o.Assume, goal, nil, opt.timeoutMs)
		modelScript, gvs := c.QueryGV(o.Assume, goal, vals, opt.timeoutMs)
		o.GVKeys = map[string]string{}
		for i, k := range gvs {
			if k != "" {
				o.GVKeys[k] = valNames[i]
			}
		}
		var altScripts []string
		for _, alt := range o.Alts {
			altScripts = append(altScripts, c.Query(o.Assume, c.Implies(o.PC, alt), nil, opt.timeoutMs))
		}
		var caseScripts []string
		if !o.Cover {
			caseScripts, _ = caseQueries(fx, o, goal, vals, opt.timeoutMs)
		}
		wg.Add(1)
		slots <- struct{}{}
		go func(o *Obligation, script string) {
			defer wg.Done()
			defer func() { <-slots }()
			modelScript := modelScript
			groundScript := groundScript
			to := opt.timeoutMs
			if o.Cover && to > 5000 {
				to = 5000
			}
			// witness alternatives first: they are cheap when they work
			for i, s2 := range altScripts {
				ato := to
				if ato > 5000 {
					ato = 5000
				}
				r2 := Solve(s2, opt.workdir, fmt.Sprintf("%s.alt%d", o.Name, i), ato, false)
				o.Ms += r2.Ms
				if r2.Status == "unsat" {
					o.Status, o.Backend, o.Output = "unsat", r2.Backend+"+witness", r2.Output
					return
				}
			}
			if o.Cover && groundScript != "" && to > 3000 {
				to = 3000
			}
			var caseCh chan string
			if !o.Cover && len(caseScripts) > 0 {
				// contract clause `split E`: the case queries run beside the plain query; the obligation is
				// proved by the plain query or by ALL cases, whichever comes first
				caseCh = make(chan string, 1)
				go func() {
					be := ""
					for i, cs := range caseScripts {
						rc := Solve(cs, opt.workdir, fmt.Sprintf("%s.case%d", o.Name, i), to, false)
						if rc.Status != "unsat" {
							caseCh <- ""
							return
						}
						be = rc.Backend
					}
					caseCh <- be + "+cases"
				}()
			}
			var r SolveResult
			if caseCh == nil {
				r = Solve(script, opt.workdir, o.Name, to, opt.all && !o.Cover)
			} else {
				t0 := time.Now()
				mainCh := make(chan SolveResult, 1)
				go func() { mainCh <- Solve(script, opt.workdir, o.Name, to, opt.all && !o.Cover) }()
				select {
				case r = <-mainCh:
					if r.Status != "unsat" && r.Status != "sat" {
						if be := <-caseCh; be != "" {
							r = SolveResult{Status: "unsat", Backend: be, Ms: time.Since(t0).Milliseconds()}
						}
					}
				case be := <-caseCh:
					if be != "" {
						r = SolveResult{Status: "unsat", Backend: be, Ms: time.Since(t0).Milliseconds()}
					} else {
						r = <-mainCh
					}
				}
			}
			o.Status, o.Backend, o.Output = r.Status, r.Backend, r.Output
			o.Ms += r.Ms
			if o.Cover && r.Status != "sat" && r.Status != "unsat" && groundScript != "" {
				if r2 := Solve(groundScript, opt.workdir, o.Name+".ground", 5000, false); r2.Status == "sat" {
					o.Status, o.Backend = "sat", r2.Backend+"+ground"
				}
				o.Ms += 0
			}
			if r.Status == "sat" && !o.Cover {
				if r2 := Solve(modelScript, opt.workdir, o.Name+".model", to, false); r2.Status == "sat" {
					o.Output = r2.Output
				}
			}
		}(o, script)
	}
	wg.Wait()
}

// ---- lemmas: closed formulas over spec functions, proved once

func (eng *Engine) lemmaObligations(prop string) ([]*Obligation, *FnExec, error) {
	var obls []*Obligation
	fx := eng.newExec(ExecOpts{})
	st := &State{pc: fx.c.True(), locals: map[*ssa.Alloc]Val{}, heap: map[string]*Term{}, ghost: map[string]Val{}, held: map[string]*Term{}}
	for _, ax := range eng.db.Axioms {
		tagged := false
		for _, p := range ax.Props {
			if p == prop {
				tagged = true
			}
		}
		if !tagged {
			continue
		}
		var t *Term
		err := func() (err error) {
			defer func() {
				if r := recover(); r != nil {
					err = fmt.Errorf("%s: %v", ax.Name, r)
				}
			}()
			env := &CEnv{fx: fx, st: st, vars: map[string]CVal{}}
			t = env.Bool(ax.Expr)
			return nil
		}()
		if err != nil {
			return nil, nil, err
		}
		if !ax.Lemma {
			fx.assumeGlobal(t)
			fx.note("axiom " + ax.Name)
			continue
		}
		obls = append(obls, &Obligation{Name: "lemma/" + ax.Name, Kind: "lemma", Desc: exprString(ax.Expr), PC: fx.c.True(), Goal: t,
			Assume: fx.assumes[:len(fx.assumes):len(fx.assumes)]})
	}
	return obls, fx, nil
}

// smallModel re-solves a failed obligation with all input lengths bounded.
func smallModel(fx *FnExec, o *Obligation, work string) map[string]string {
	c := fx.c
	extra := append([]*Term{}, o.Assume...)
	bounded := false
	var vals []*Term
	var names []string
	for _, v := range o.Values {
		if v.T.Sort.IsArr() {
			continue
		}
		vals = append(vals, v.T)
		names = append(names, v.Name)
		if strings.HasSuffix(v.Name, ".len") && v.T.Sort == BV(64) {
			extra = append(extra, c.BVCmp("bvule", v.T, c.BVInt(4096, 64)))
			bounded = true
		}
		if strings.HasSuffix(v.Name, ".cap") && v.T.Sort == BV(64) {
			extra = append(extra, c.BVCmp("bvule", v.T, c.BVInt(8192, 64)))
		}
	}
	if !bounded {
		return nil
	}
	script, gvs := c.QueryGV(extra, c.Implies(o.PC, o.Goal), vals, 10000)
	r := Solve(script, work, o.Name+".small", 10000, false)
	if r.Status != "sat" {
		return nil
	}
	o.GVKeys = map[string]string{}
	for i, k := range gvs {
		if k != "" {
			o.GVKeys[k] = names[i]
		}
	}
	return parseModel(r.Output)
}

// namedModel renders a model under the input names (instead of solver symbols).
func namedModel(o *Obligation, model map[string]string) map[string]string {
	out := map[string]string{}
	for k, v := range model {
		n, ok := o.GVKeys[k]
		if !ok {
			n, ok = o.GVKeys[strings.Trim(k, "|")]
		}
		if !ok {
			n = k
		}
		// byte contents that are zero are omitted to keep the file readable
		if strings.HasSuffix(n, "]") && (v == "#x00") {
			continue
		}
		out[n] = v
	}
	return out
}
