package main

// Solver race: z3-new (5.1.0), z3 (4.8.12), cvc5 on one SMT-LIB2 script.

import (
	"bytes"
	"context"
	"fmt"
	"os"
	"os/exec"
	"path/filepath"
	"strings"
	"sync"
	"time"
)

type SolveResult struct {
	Status  string // unsat | sat | unknown
	Backend string
	Ms      int64
	Output  string // raw output of the deciding solver (model on sat)
	All     map[string]string
}

type solverSpec struct {
	name string
	args func(file string, timeoutMs int) []string
	skip func(script string) bool
}

// Several seeds of z3 5.1.0 are raced: quantified goals that one seed decides in a second can
// time out under another (measured), and a proof must not depend on that luck.
var solvers = []solverSpec{
	{"z3-new", func(f string, t int) []string { return []string{"z3-new", fmt.Sprintf("-T:%d", (t+999)/1000), f} }, nil},
	{"z3-new/seed1", func(f string, t int) []string {
		return []string{"z3-new", fmt.Sprintf("-T:%d", (t+999)/1000), "smt.random_seed=1", f}
	}, nil},
	{"z3-new/norel", func(f string, t int) []string {
		return []string{"z3-new", fmt.Sprintf("-T:%d", (t+999)/1000), "smt.relevancy=0", "smt.random_seed=7", f}
	}, nil},
	// NOTE: smt.bv.solver=2 (int-blasting) decides the parsers' 64-bit length arithmetic in milliseconds, but it
	// answered unsat on a satisfiable cover query here (z3 5.1.0) - unsound, so it is NOT used.
	{"z3", func(f string, t int) []string { return []string{"z3", fmt.Sprintf("-T:%d", (t+999)/1000), f} }, nil},
	{"cvc5", func(f string, t int) []string {
		return []string{"cvc5", "--lang=smt2", fmt.Sprintf("--tlimit=%d", t), f}
	}, func(s string) bool { return strings.Contains(s, "(lambda ") }},
}

func firstLine(s string) string {
	s = strings.TrimSpace(s)
	if i := strings.IndexByte(s, '\n'); i >= 0 {
		return strings.TrimSpace(s[:i])
	}
	return s
}

// Solve races the solvers on script.  If all is true every solver's answer is
// collected (thorough tier cross-check).
// Solve races the solvers; an undecided answer that came back well before the time limit (a solver that could not be
// started or was killed under memory pressure looks like that, and so does an honest quick "unknown") is tried once more.
func Solve(script string, workdir, name string, timeoutMs int, all bool) SolveResult {
	r := solveOnce(script, workdir, name, timeoutMs, all)
	if r.Status != "unsat" && r.Status != "sat" && r.Status != "disagree" && r.Ms < int64(timeoutMs)/2 {
		time.Sleep(500 * time.Millisecond)
		r2 := solveOnce(script, workdir, name+".retry", timeoutMs, all)
		r2.Ms += r.Ms
		return r2
	}
	return r
}

func solveOnce(script string, workdir, name string, timeoutMs int, all bool) SolveResult {
	os.MkdirAll(workdir, 0o755)
	file := filepath.Join(workdir, sanitize(name)+".smt2")
	os.WriteFile(file, []byte(script), 0o644)
	start := time.Now()
	ctx, cancel := context.WithTimeout(context.Background(), time.Duration(timeoutMs+1500)*time.Millisecond)
	defer cancel()
	type ans struct {
		name, status, out string
	}
	ch := make(chan ans, len(solvers))
	var wg sync.WaitGroup
	n := 0
	for _, s := range solvers {
		if s.skip != nil && s.skip(script) {
			continue
		}
		n++
		wg.Add(1)
		go func(s solverSpec) {
			defer wg.Done()
			a := s.args(file, timeoutMs)
			cmd := exec.CommandContext(ctx, a[0], a[1:]...)
			var out bytes.Buffer
			cmd.Stdout = &out
			cmd.Stderr = &out
			t1 := time.Now()
			cmd.Run()
			trace("solver %s on %s took %v", s.name, name, time.Since(t1))
			o := out.String()
			st := firstLine(o)
			if st != "sat" && st != "unsat" {
				if ctx.Err() != nil || strings.Contains(o, "timeout") {
					st = "timeout"
				} else if st != "unknown" {
					st = "error:" + st
				}
			}
			ch <- ans{s.name, st, o}
		}(s)
	}
	res := SolveResult{Status: "unknown", All: map[string]string{}}
	var grace <-chan time.Time
	for i := 0; i < n; i++ {
		var a ans
		select {
		case a = <-ch:
		case <-grace:
			// cross-check window over: the remaining solvers are abandoned
			cancel()
			i = n
			continue
		}
		res.All[a.name] = a.status
		if (a.status == "sat" || a.status == "unsat") && res.Backend == "" {
			res.Status = a.status
			res.Backend = a.name
			res.Output = a.out
			res.Ms = time.Since(start).Milliseconds()
			if !all {
				cancel()
				break
			}
			grace = time.After(5 * time.Second)
		} else if a.status == "sat" || a.status == "unsat" {
			if a.status != res.Status {
				res.Status = "disagree"
			}
		}
	}
	go func() { wg.Wait() }()
	if res.Backend == "" {
		allErr := len(res.All) > 0
		for _, v := range res.All {
			if !strings.HasPrefix(v, "error:") {
				allErr = false
			}
		}
		if allErr {
			res.Status = "error"
		}
		res.Ms = time.Since(start).Milliseconds()
		var parts []string
		for k, v := range res.All {
			parts = append(parts, k+"="+v)
		}
		res.Output = strings.Join(parts, " ")
	}
	if res.Status == "unsat" && !keepSMT {
		os.Remove(file)
	}
	return res
}

var keepSMT = os.Getenv("HOPVC_KEEP_SMT") != ""

func sanitize(s string) string {
	var sb strings.Builder
	for _, r := range s {
		if r >= 'a' && r <= 'z' || r >= 'A' && r <= 'Z' || r >= '0' && r <= '9' || r == '.' || r == '-' || r == '_' {
			sb.WriteRune(r)
		} else {
			sb.WriteByte('_')
		}
	}
	return sb.String()
}

// parseModel extracts ((name value) ...) pairs from a get-value answer.
func parseModel(out string) map[string]string {
	m := map[string]string{}
	i := strings.Index(out, "((")
	if i < 0 {
		return m
	}
	toks := tokenizeSexp(out[i:])
	// toks: ( ( name value ) ( name value ) ... )
	pos := 0
	var parse func() interface{}
	parse = func() interface{} {
		if pos >= len(toks) {
			return nil
		}
		t := toks[pos]
		pos++
		if t == "(" {
			var l []interface{}
			for pos < len(toks) && toks[pos] != ")" {
				l = append(l, parse())
			}
			pos++
			return l
		}
		return t
	}
	top, _ := parse().([]interface{})
	for _, e := range top {
		p, ok := e.([]interface{})
		if !ok || len(p) != 2 {
			continue
		}
		m[sexpString(p[0])] = sexpString(p[1])
	}
	return m
}

func sexpString(x interface{}) string {
	switch v := x.(type) {
	case string:
		return v
	case []interface{}:
		var parts []string
		for _, e := range v {
			parts = append(parts, sexpString(e))
		}
		return "(" + strings.Join(parts, " ") + ")"
	}
	return ""
}

func tokenizeSexp(s string) []string {
	var toks []string
	i := 0
	for i < len(s) {
		ch := s[i]
		switch {
		case ch == '(' || ch == ')':
			toks = append(toks, string(ch))
			i++
		case ch == ' ' || ch == '\n' || ch == '\t' || ch == '\r':
			i++
		case ch == '|':
			j := strings.IndexByte(s[i+1:], '|')
			if j < 0 {
				j = len(s) - i - 2
			}
			toks = append(toks, s[i:i+j+2])
			i += j + 2
		default:
			j := i
			for j < len(s) && !strings.ContainsRune("() \n\t\r", rune(s[j])) {
				j++
			}
			toks = append(toks, s[i:j])
			i = j
		}
	}
	return toks
}

// quickUnsat runs one z3-new process on the script (via stdin) and reports whether it answered unsat.
func quickUnsat(script string, timeoutMs int) bool {
	ctx, cancel := context.WithTimeout(context.Background(), time.Duration(timeoutMs+500)*time.Millisecond)
	defer cancel()
	cmd := exec.CommandContext(ctx, "z3-new", "-in", fmt.Sprintf("-t:%d", timeoutMs))
	cmd.Stdin = strings.NewReader(script)
	var out bytes.Buffer
	cmd.Stdout = &out
	cmd.Run()
	return firstLine(out.String()) == "unsat"
}
