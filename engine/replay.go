package main

// Replay of solver counterexamples against the real code: the model's input
// values are turned into an in-package Go test that calls the real function,
// injected with `go test -overlay` (the repository is not touched).

import (
	"encoding/json"
	"fmt"
	"go/types"
	"math/big"
	"os"
	"os/exec"
	"path/filepath"
	"sort"
	"strconv"
	"strings"
	"time"

	"golang.org/x/tools/go/ssa"
)

type replayResult struct {
	Reproduced bool   `json:"reproduced"`
	Test       string `json:"test,omitempty"`
	Output     string `json:"output,omitempty"`
	Note       string `json:"note,omitempty"`
	Cmd        string `json:"cmd,omitempty"`
}

const replayBytes = 160 // leading bytes of each byte sequence requested from the model

// describeInput registers the model terms needed to rebuild an input value.
func (fx *FnExec) describeInput(st *State, name string, v Val, t types.Type, depth int) {
	c := fx.c
	saved := fx.noAssume
	fx.noAssume = true
	defer func() { fx.noAssume = saved }()
	add := func(n string, tm *Term) { fx.inputs = append(fx.inputs, namedTerm{n, tm}) }
	defer func() {
		if e := recover(); e != nil {
			if _, ok := e.(oosError); !ok {
				panic(e)
			}
		}
	}()
	switch x := v.(type) {
	case *Term:
		if x.Sort.IsArr() {
			if at, ok := under(t).(*types.Array); ok && at.Len() <= replayBytes && x.Sort.Elem.IsBV() {
				for i := int64(0); i < at.Len(); i++ {
					add(fmt.Sprintf("%s[%d]", name, i), c.Select(x, fx.bv64(i)))
				}
			}
			return
		}
		add(name, x)
	case SliceV:
		add(name+".len", x.Len)
		add(name+".cap", x.Cap)
		add(name+".isnil", c.Eq(x.Ref, fx.nilRef()))
		et := under(t).(*types.Slice).Elem()
		if b, ok := under(et).(*types.Basic); ok && b.Kind() == types.Uint8 {
			arr := fx.elemArray(st, et, x.Ref)
			for i := int64(0); i < replayBytes; i++ {
				add(fmt.Sprintf("%s[%d]", name, i), c.Select(arr, c.BVBin("bvadd", x.Off, fx.bv64(i))))
			}
		}
	case StrV:
		add(name+".len", x.Len)
		for i := int64(0); i < replayBytes; i++ {
			add(fmt.Sprintf("%s[%d]", name, i), c.Select(x.Arr, c.BVBin("bvadd", x.Off, fx.bv64(i))))
		}
	case IfaceV:
		add(name+".isnil", c.Eq(x.Tag, c.BVInt(0, 32)))
	case StructV:
		s := under(t).(*types.Struct)
		for i, f := range x.F {
			fx.describeInput(st, name+"."+s.Field(i).Name(), f, s.Field(i).Type(), depth)
		}
	case PtrV:
		if x.Ref == nil {
			return
		}
		add(name+".isnil", c.Eq(x.Ref, fx.nilRef()))
		if depth <= 0 {
			return
		}
		if x.Kind == PObj {
			switch u := under(x.Elem).(type) {
			case *types.Struct:
				for i := 0; i < u.NumFields(); i++ {
					ft := u.Field(i).Type()
					var fv Val
					if isObjT(ft) {
						fv = PtrV{Kind: PObj, Ref: fx.subRef(x.Elem, i, x.Ref), Elem: ft}
						fx.describeObj(st, name+"->"+u.Field(i).Name(), fv.(PtrV), depth-1)
						continue
					}
					fv = fx.loadField(st, x.Elem, i, x.Ref)
					fx.describeInput(st, name+"->"+u.Field(i).Name(), fv, ft, depth-1)
				}
			case *types.Array:
				fx.describeObj(st, name+"->", x, depth)
			}
		}
	}
}

func (fx *FnExec) describeObj(st *State, name string, p PtrV, depth int) {
	c := fx.c
	switch u := under(p.Elem).(type) {
	case *types.Array:
		if singleSort(u.Elem()) != nil && !isObjT(u.Elem()) && u.Len() <= replayBytes {
			arr := fx.elemArray(st, u.Elem(), p.Ref)
			for i := int64(0); i < u.Len(); i++ {
				fx.inputs = append(fx.inputs, namedTerm{fmt.Sprintf("%s[%d]", name, i), c.Select(arr, fx.bv64(i))})
			}
		}
	case *types.Struct:
		for i := 0; i < u.NumFields(); i++ {
			ft := u.Field(i).Type()
			if isObjT(ft) {
				fx.describeObj(st, name+"."+u.Field(i).Name(), PtrV{Kind: PObj, Ref: fx.subRef(p.Elem, i, p.Ref), Elem: ft}, depth)
				continue
			}
			fx.describeInput(st, name+"."+u.Field(i).Name(), fx.loadField(st, p.Elem, i, p.Ref), ft, depth)
		}
	}
}

// ---- building Go source from a model

type goBuilder struct {
	pkg     *types.Package
	model   map[string]string
	imports map[string]string // path -> name
	ok      bool
}

func (b *goBuilder) qual(p *types.Package) string {
	if p == b.pkg {
		return ""
	}
	b.imports[p.Path()] = p.Name()
	return p.Name()
}

func (b *goBuilder) typeStr(t types.Type) string { return types.TypeString(t, b.qual) }

func modelInt(s string) (*big.Int, bool) {
	s = strings.TrimSpace(s)
	if strings.HasPrefix(s, "#x") {
		v, ok := new(big.Int).SetString(s[2:], 16)
		return v, ok
	}
	if strings.HasPrefix(s, "#b") {
		v, ok := new(big.Int).SetString(s[2:], 2)
		return v, ok
	}
	if strings.HasPrefix(s, "(_ bv") {
		f := strings.Fields(strings.Trim(s, "()"))
		if len(f) >= 2 {
			v, ok := new(big.Int).SetString(strings.TrimPrefix(f[1], "bv"), 10)
			return v, ok
		}
	}
	return nil, false
}

func (b *goBuilder) intLit(name string, t types.Type) string {
	v, ok := modelInt(b.model[name])
	if !ok {
		return fmt.Sprintf("%s(0)", b.typeStr(t))
	}
	w, signed, _ := intWidth(t)
	if signed && v.Bit(w-1) == 1 {
		v = new(big.Int).Sub(v, new(big.Int).Lsh(big.NewInt(1), uint(w)))
	}
	return fmt.Sprintf("%s(%s)", b.typeStr(t), v.String())
}

func (b *goBuilder) lenOf(name string, max int64) int64 {
	v, ok := modelInt(b.model[name])
	if !ok {
		return 0
	}
	if !v.IsInt64() || v.Int64() > max || v.Int64() < 0 {
		b.ok = false // too large to materialise
		return max
	}
	return v.Int64()
}

func (b *goBuilder) byteAt(name string, i int64) byte {
	v, ok := modelInt(b.model[fmt.Sprintf("%s[%d]", name, i)])
	if !ok {
		return 0
	}
	return byte(v.Uint64())
}

func exported(n string) bool { return n != "" && n[0] >= 'A' && n[0] <= 'Z' }

// expr builds a Go expression of type t from the model entries under name.
func (b *goBuilder) expr(name string, t types.Type, depth int) string {
	if isBoolT(t) {
		if b.model[name] == "true" {
			return "true"
		}
		return "false"
	}
	if _, _, ok := intWidth(t); ok && !isFloat(t) {
		return b.intLit(name, t)
	}
	if isStringT(t) {
		n := b.lenOf(name+".len", 1<<16)
		var sb strings.Builder
		for i := int64(0); i < n; i++ {
			c := byte(0x61)
			if i < replayBytes {
				c = b.byteAt(name, i)
			}
			fmt.Fprintf(&sb, "\\x%02x", c)
		}
		s := "\"" + sb.String() + "\""
		if tn := b.typeStr(t); tn != "string" {
			return tn + "(" + s + ")"
		}
		return s
	}
	switch u := under(t).(type) {
	case *types.Slice:
		if b.model[name+".isnil"] == "true" {
			return "nil"
		}
		if eb, ok := under(u.Elem()).(*types.Basic); ok && eb.Kind() == types.Uint8 {
			n := b.lenOf(name+".len", 1<<20)
			cp := b.lenOf(name+".cap", 1<<21)
			if cp < n {
				cp = n
			}
			var parts []string
			last := int64(-1)
			for i := int64(0); i < n && i < replayBytes; i++ {
				if b.byteAt(name, i) != 0 {
					last = i
				}
			}
			for i := int64(0); i <= last; i++ {
				parts = append(parts, fmt.Sprintf("%d: 0x%02x", i, b.byteAt(name, i)))
			}
			return fmt.Sprintf("func() %s { s := make(%s, %d, %d); for i, v := range map[int]byte{%s} { s[i] = v }; return s }()", b.typeStr(t), b.typeStr(t), n, cp, strings.Join(parts, ", "))
		}
		return "nil"
	case *types.Array:
		if eb, ok := under(u.Elem()).(*types.Basic); ok && eb.Kind() == types.Uint8 && u.Len() <= replayBytes {
			var parts []string
			for i := int64(0); i < u.Len(); i++ {
				parts = append(parts, fmt.Sprintf("0x%02x", b.byteAt(name, i)))
			}
			return fmt.Sprintf("%s{%s}", b.typeStr(t), strings.Join(parts, ", "))
		}
		return fmt.Sprintf("%s{}", b.typeStr(t))
	case *types.Struct:
		return b.structLit(name, ".", t, u, depth)
	case *types.Pointer:
		if b.model[name+".isnil"] == "true" || depth <= 0 {
			if depth <= 0 && b.model[name+".isnil"] != "true" {
				if _, isS := under(u.Elem()).(*types.Struct); isS {
					return "new(" + b.typeStr(u.Elem()) + ")"
				}
			}
			return "nil"
		}
		switch eu := under(u.Elem()).(type) {
		case *types.Struct:
			return "&" + b.structLit(name, "->", u.Elem(), eu, depth-1)
		case *types.Array:
			if eb, ok := under(eu.Elem()).(*types.Basic); ok && eb.Kind() == types.Uint8 && eu.Len() <= replayBytes {
				var parts []string
				for i := int64(0); i < eu.Len(); i++ {
					parts = append(parts, fmt.Sprintf("0x%02x", b.byteAt(name+"->", i)))
				}
				return fmt.Sprintf("&%s{%s}", b.typeStr(u.Elem()), strings.Join(parts, ", "))
			}
		}
		return "new(" + b.typeStr(u.Elem()) + ")"
	}
	return "*new(" + b.typeStr(t) + ")"
}

func (b *goBuilder) structLit(name, sep string, t types.Type, u *types.Struct, depth int) string {
	var parts []string
	samePkg := true
	if n := namedOf(t); n != nil && n.Obj().Pkg() != nil && n.Obj().Pkg() != b.pkg {
		samePkg = false
	}
	for i := 0; i < u.NumFields(); i++ {
		f := u.Field(i)
		if !samePkg && !exported(f.Name()) {
			continue
		}
		ft := f.Type()
		switch under(ft).(type) {
		case *types.Interface, *types.Map, *types.Chan, *types.Signature:
			continue
		}
		if n := namedOf(ft); n != nil && n.Obj().Pkg() != nil {
			switch n.Obj().Pkg().Path() {
			case "sync", "sync/atomic", "time", "bytes":
				continue
			}
		}
		fname := name + sep + f.Name()
		if isObjT(ft) && sep == "->" {
			fname = name + "->" + f.Name()
		}
		parts = append(parts, fmt.Sprintf("%s: %s", f.Name(), b.exprField(fname, ft, depth)))
	}
	return fmt.Sprintf("%s{%s}", b.typeStr(t), strings.Join(parts, ", "))
}

func (b *goBuilder) exprField(name string, t types.Type, depth int) string {
	// object-typed fields were described with "." separators below the field name
	return b.expr(name, t, depth)
}

// tryReplay builds and runs the replay test for a failed obligation with a model.
func tryReplay(eng *Engine, t *funcTask, o *Obligation, rawModel map[string]string, dir string) *replayResult {
	fn := t.fn
	if fn.Pkg == nil || fn.Parent() != nil {
		return &replayResult{Note: "no replay: closure or synthetic function"}
	}
	if strings.Contains(o.Name, "/inl") {
		// the failing site is inside an inlined callee; the replay still calls the outer function
	}
	model := map[string]string{}
	for k, v := range rawModel {
		if n, ok := o.GVKeys[k]; ok {
			model[n] = v
		}
		if n, ok := o.GVKeys[strings.Trim(k, "|")]; ok {
			model[n] = v
		}
	}
	fc := eng.db.Funcs[t.key]
	panicKind := isSafetyKind(o.Kind)
	var replayExpr string
	if fc != nil {
		replayExpr = fc.ReplayExpr
	}
	if !panicKind && replayExpr == "" {
		return &replayResult{Note: "no replay template for " + o.Kind + " obligations of this function; the model is recorded"}
	}
	b := &goBuilder{pkg: fn.Pkg.Pkg, model: model, imports: map[string]string{"testing": "testing", "fmt": "fmt"}, ok: true}
	var decls []string
	var args []string
	recvExpr := ""
	for i, p := range fn.Params {
		e := b.expr("in."+p.Name(), p.Type(), 2)
		vn := fmt.Sprintf("a%d", i)
		if p.Name() != "" && p.Name() != "_" {
			vn = "p_" + p.Name()
		}
		decls = append(decls, fmt.Sprintf("\tvar %s %s = %s", vn, b.typeStr(p.Type()), e))
		if i == 0 && fn.Signature.Recv() != nil {
			recvExpr = vn
		} else {
			args = append(args, vn)
		}
	}
	if !b.ok {
		return &replayResult{Note: "no replay: the model needs an input too large to materialise; model recorded"}
	}
	if fn.Signature.Variadic() && len(args) > 0 {
		args[len(args)-1] += "..."
	}
	call := ""
	if recvExpr != "" {
		call = fmt.Sprintf("%s.%s(%s)", recvExpr, fn.Name(), strings.Join(args, ", "))
	} else {
		call = fmt.Sprintf("%s(%s)", fn.Name(), strings.Join(args, ", "))
	}
	nres := fn.Signature.Results().Len()
	var resNames []string
	for i := 0; i < nres; i++ {
		n := fmt.Sprintf("r%d", i)
		if fc != nil && i < len(fc.Results) {
			n = "r_" + fc.Results[i]
		}
		resNames = append(resNames, n)
	}
	var body strings.Builder
	for _, d := range decls {
		body.WriteString(d + "\n")
	}
	for i, p := range fn.Params {
		vn := fmt.Sprintf("a%d", i)
		if p.Name() != "" && p.Name() != "_" {
			vn = "p_" + p.Name()
		}
		fmt.Fprintf(&body, "\t_ = %s\n", vn)
	}
	if nres > 0 {
		fmt.Fprintf(&body, "\t%s := %s\n", strings.Join(resNames, ", "), call)
		for _, n := range resNames {
			fmt.Fprintf(&body, "\t_ = %s\n", n)
		}
	} else {
		fmt.Fprintf(&body, "\t%s\n", call)
	}
	body.WriteString("\tfmt.Println(\"HOPVC-REPLAY: RETURNED\")\n")
	if !panicKind && replayExpr != "" {
		fmt.Fprintf(&body, "\tif !(%s) {\n\t\tfmt.Println(\"HOPVC-REPLAY: POSTCONDITION-VIOLATED\")\n\t} else {\n\t\tfmt.Println(\"HOPVC-REPLAY: POSTCONDITION-HOLDS\")\n\t}\n", replayExpr)
	}
	var imps []string
	for p, n := range b.imports {
		imps = append(imps, fmt.Sprintf("\t%s %q", n, p))
	}
	imps = append(imps, "\thopvcdebug \"runtime/debug\"")
	sort.Strings(imps)
	helper := ""
	if fc != nil && fc.ReplayHelp != "" {
		if data, err := os.ReadFile(filepath.Join(verifDir(), "replay", fc.ReplayHelp)); err == nil {
			helper = string(data)
		}
	}
	src := fmt.Sprintf(`package %s

// Generated by hopvc from the solver model of obligation %s.
import (
%s
)

func TestHopvcReplay(t *testing.T) {
	defer func() {
		if r := recover(); r != nil {
			fmt.Printf("HOPVC-REPLAY: PANIC %%v\n", r)
			fmt.Printf("HOPVC-REPLAY: STACK %%s\n", hopvcdebug.Stack())
		}
	}()
%s}

%s
`, fn.Pkg.Pkg.Name(), o.Name, strings.Join(imps, "\n"), body.String(), helper)
	testFile := filepath.Join(dir, sanitize(o.Name)+"_test.go")
	os.WriteFile(testFile, []byte(src), 0o644)
	// overlay
	pkgDir := ""
	for _, p := range eng.pkgs {
		if p.Types == fn.Pkg.Pkg && len(p.GoFiles) > 0 {
			pkgDir = filepath.Dir(p.GoFiles[0])
		}
	}
	if pkgDir == "" {
		return &replayResult{Test: testFile, Note: "no replay: package directory not found"}
	}
	ov := map[string]map[string]string{"Replace": {filepath.Join(pkgDir, "zz_hopvc_replay_test.go"): testFile}}
	ovFile := filepath.Join(dir, sanitize(o.Name)+".overlay.json")
	data, _ := json.Marshal(ov)
	os.WriteFile(ovFile, data, 0o644)
	cmdline := fmt.Sprintf("cd %s && GOFLAGS=-mod=mod GOPROXY=off go test -overlay %s -vet=off -count=1 -timeout 60s -run '^TestHopvcReplay$' -v .", pkgDir, ovFile)
	cmd := exec.Command("bash", "-c", "ulimit -v 8000000; "+cmdline)
	cmd.Env = append(os.Environ(), "GOFLAGS=-mod=mod", "GOPROXY=off")
	done := make(chan struct{})
	var out []byte
	go func() {
		out, _ = cmd.CombinedOutput()
		close(done)
	}()
	select {
	case <-done:
	case <-time.After(150 * time.Second):
		if cmd.Process != nil {
			cmd.Process.Kill()
		}
		return &replayResult{Test: testFile, Cmd: cmdline, Note: "replay timed out"}
	}
	os.Remove(ovFile)
	so := string(out)
	rr := &replayResult{Test: rel(verifDir(), testFile), Cmd: cmdline, Output: truncate(so, 4000)}
	switch {
	case panicKind && strings.Contains(so, "HOPVC-REPLAY: PANIC") && (siteOf(o.Pos) == "" || strings.Contains(so, siteOf(o.Pos))):
		rr.Reproduced = true
		rr.Note = "the real function panics on the solver's input, at the obligation's source line"
	case panicKind && strings.Contains(so, "HOPVC-REPLAY: PANIC"):
		rr.Note = "the real function panics on the reconstructed input, but NOT at the obligation's source line (" + siteOf(o.Pos) + "): not counted as a reproduction"
	case !panicKind && strings.Contains(so, "POSTCONDITION-VIOLATED"):
		rr.Reproduced = true
		rr.Note = "the real function violates the postcondition on the solver's input"
	case strings.Contains(so, "HOPVC-REPLAY: RETURNED"):
		rr.Note = "the real function returned normally on the reconstructed input (the model may depend on state the replay cannot build)"
	default:
		rr.Note = "replay did not run to completion (build error or unsupported input shape)"
	}
	return rr
}

var _ = strconv.Itoa
var _ *ssa.Function

// siteOf: "dir/file.go:123" -> "/file.go:123" as it appears in a Go stack trace.
func siteOf(pos string) string {
	if pos == "" {
		return ""
	}
	i := strings.LastIndexByte(pos, '/')
	return "/" + pos[i+1:] + " "
}
