package main

type replayResult struct {
	Reproduced bool   `json:"reproduced"`
	Test       string `json:"test,omitempty"`
	Output     string `json:"output,omitempty"`
	Note       string `json:"note,omitempty"`
}

func tryReplay(eng *Engine, t *funcTask, o *Obligation, model map[string]string, dir string) *replayResult {
	return nil
}
