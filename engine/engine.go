package main

import (
	"fmt"
	"go/token"
	"go/types"
	"os"
	"path/filepath"
	"sort"
	"strconv"
	"strings"
	"sync"

	"golang.org/x/tools/go/packages"
	"golang.org/x/tools/go/ssa"
	"golang.org/x/tools/go/ssa/ssautil"
)

type Engine struct {
	prog           *ssa.Program
	pkgs           []*packages.Package
	spkgs          []*ssa.Package
	db             *ContractDB
	stablePrefixes []string
	roGlobals      map[*ssa.Global]bool
	cellCache      map[*ssa.Alloc]bool
	typeTags       map[string]int
	strIDs         map[string]int
	globIDs        map[*ssa.Global]int
	globRO         map[*ssa.Global]bool
	ghostTypes     map[string]*CType
	maxInline      int
	inlineOK       map[*ssa.Function]bool
	byName         map[string]*types.Package
	funcs          map[string]*ssa.Function
	mu             sync.Mutex
	repo           string
	exprIDs        map[*CExpr]int
	traced         map[string]bool // functions whose calls are recorded in call-trace ghosts
	tagTypes       map[int]types.Type
}

func repoDir() string {
	if d := os.Getenv("HOPVC_REPO"); d != "" {
		return d
	}
	return "/repo"
}

func verifDir() string {
	if d := os.Getenv("HOPVC_HOME"); d != "" {
		return d
	}
	exe, err := os.Executable()
	if err == nil {
		d := filepath.Dir(filepath.Dir(exe))
		if _, err := os.Stat(filepath.Join(d, "properties.jsonl")); err == nil {
			return d
		}
	}
	return "/verif"
}

// Load type-checks the given package patterns of /repo (with -tags verif) and
// builds SSA in naive form; then loads every contract file it can find.
func Load(patterns []string) (*Engine, error) {
	repo := repoDir()
	cfg := &packages.Config{Mode: packages.LoadAllSyntax, Dir: repo, BuildFlags: []string{"-tags=verif"},
		Env: append(os.Environ(), "GOFLAGS=-mod=mod", "GOPROXY=off")}
	pkgs, err := packages.Load(cfg, patterns...)
	if err != nil {
		return nil, err
	}
	var errs []string
	packages.Visit(pkgs, nil, func(p *packages.Package) {
		for _, e := range p.Errors {
			errs = append(errs, e.Error())
		}
	})
	if len(errs) > 0 {
		if len(errs) > 5 {
			errs = errs[:5]
		}
		return nil, fmt.Errorf("/repo does not type-check: %s", strings.Join(errs, "; "))
	}
	prog, spkgs := ssautil.AllPackages(pkgs, ssa.NaiveForm|ssa.GlobalDebug)
	prog.Build()
	eng := &Engine{prog: prog, pkgs: pkgs, spkgs: spkgs, db: NewContractDB(), cellCache: map[*ssa.Alloc]bool{}, typeTags: map[string]int{},
		strIDs: map[string]int{}, globIDs: map[*ssa.Global]int{}, globRO: map[*ssa.Global]bool{}, ghostTypes: map[string]*CType{},
		maxInline: 6, inlineOK: map[*ssa.Function]bool{}, byName: map[string]*types.Package{}, funcs: map[string]*ssa.Function{}, repo: repo}
	for _, p := range prog.AllPackages() {
		if _, dup := eng.byName[p.Pkg.Name()]; !dup || strings.HasPrefix(p.Pkg.Path(), repoModule) {
			eng.byName[p.Pkg.Name()] = p.Pkg
		}
	}
	// contract files: prelude, then every zz_contracts_verif.go in the repo
	prel, _ := filepath.Glob(filepath.Join(verifDir(), "prelude", "*.spec"))
	sort.Strings(prel)
	for _, f := range prel {
		if err := eng.db.LoadFile(f); err != nil {
			return nil, err
		}
	}
	var cfiles []string
	filepath.Walk(repo, func(path string, info os.FileInfo, err error) error {
		if err == nil && !info.IsDir() && info.Name() == "zz_contracts_verif.go" {
			cfiles = append(cfiles, path)
		}
		if err == nil && info.IsDir() && (info.Name() == ".git" || info.Name() == "node_modules") {
			return filepath.SkipDir
		}
		return nil
	})
	sort.Strings(cfiles)
	for _, f := range cfiles {
		if err := eng.db.LoadFile(f); err != nil {
			return nil, err
		}
	}
	for k, v := range eng.db.Ghosts {
		eng.ghostTypes[k] = v
	}
	eng.traced = map[string]bool{}
	var scan func(x *CExpr)
	scan = func(x *CExpr) {
		if x == nil {
			return
		}
		if x.Op == "call" && (x.Name == "called" || x.Name == "resultof" || x.Name == "argof" || x.Name == "callcount" || x.Name == "seqof") && len(x.Args) > 0 {
			eng.traced[flatName(x.Args[0])] = true
		}
		for _, a := range x.Args {
			scan(a)
		}
	}
	for _, fc := range eng.db.Funcs {
		for _, cl := range fc.Requires {
			scan(cl.Expr)
		}
		for _, cl := range fc.Ensures {
			scan(cl.Expr)
		}
		for _, cl := range fc.Proves {
			scan(cl.Expr)
		}
		for _, a := range fc.Afters {
			scan(a.Expr)
			eng.traced[a.Callee] = true
		}
		for _, lc := range fc.Loops {
			for _, cl := range lc.Invariants {
				scan(cl.Expr)
			}
		}
	}
	for _, m := range eng.db.Macros {
		scan(m.Body)
	}
	eng.indexFuncs()
	return eng, nil
}

func (eng *Engine) indexFuncs() {
	for fn := range ssautil.AllFunctions(eng.prog) {
		if fn.Synthetic != "" && !strings.HasPrefix(fn.Synthetic, "package initializer") {
			continue
		}
		k := funcKey(fn)
		if old, ok := eng.funcs[k]; ok {
			// prefer repo functions, then the one with a body
			if strings.HasPrefix(pkgPathOf(old), repoModule) && !strings.HasPrefix(pkgPathOf(fn), repoModule) {
				continue
			}
		}
		eng.funcs[k] = fn
	}
}

func (eng *Engine) FuncByKey(key string) *ssa.Function { return eng.funcs[key] }

func (eng *Engine) pkgByName(name string) *types.Package { return eng.byName[name] }

func (eng *Engine) typeTag(t types.Type) int {
	eng.mu.Lock()
	defer eng.mu.Unlock()
	k := types.TypeString(t, nil)
	if eng.tagTypes == nil {
		eng.tagTypes = map[int]types.Type{}
	}
	if id, ok := eng.typeTags[k]; ok {
		// the id may have been handed out by name (typeis() in a contract) before the type itself was seen:
		// complete the reverse map, or what typeOfTag answers would depend on which goroutine came first
		if eng.tagTypes[id] == nil {
			eng.tagTypes[id] = t
		}
		return id
	}
	id := eng.stableTag(k)
	eng.typeTags[k] = id
	eng.tagTypes[id] = t
	return id
}

// typeOfTag: the Go type that received this interface tag (nil if unknown).
func (eng *Engine) typeOfTag(id int) types.Type {
	eng.mu.Lock()
	defer eng.mu.Unlock()
	return eng.tagTypes[id]
}

func (eng *Engine) typeTagByName(name string) int {
	eng.mu.Lock()
	defer eng.mu.Unlock()
	if id, ok := eng.typeTags[name]; ok {
		return id
	}
	id := eng.stableTag(name)
	eng.typeTags[name] = id
	return id
}

// stableTag derives the interface tag of a type from its name (FNV-1a, 30 bits, never 0), so that the generated
// queries do not depend on the order in which concurrently verified functions first meet a type.  (eng.mu is held.)
func (eng *Engine) stableTag(name string) int {
	h := uint32(2166136261)
	for i := 0; i < len(name); i++ {
		h ^= uint32(name[i])
		h *= 16777619
	}
	id := int(h&0x3fffffff) | 1
	for {
		used := false
		for _, v := range eng.typeTags {
			if v == id {
				used = true
				break
			}
		}
		if !used {
			return id
		}
		id += 2
	}
}

func (eng *Engine) strID(s string) int {
	eng.mu.Lock()
	defer eng.mu.Unlock()
	if id, ok := eng.strIDs[s]; ok {
		return id
	}
	id := len(eng.strIDs) + 1
	eng.strIDs[s] = id
	return id
}

func (eng *Engine) strDeclared(fx *FnExec, name string) bool {
	if fx.strDecl[name] {
		return true
	}
	fx.strDecl[name] = true
	return false
}

func (eng *Engine) globalID(g *ssa.Global) int {
	eng.mu.Lock()
	defer eng.mu.Unlock()
	if id, ok := eng.globIDs[g]; ok {
		return id
	}
	id := len(eng.globIDs) + 1
	eng.globIDs[g] = id
	return id
}

// globalReadOnly: never stored to outside its package initialiser.
func (eng *Engine) globalReadOnly(g *ssa.Global) bool {
	eng.mu.Lock()
	defer eng.mu.Unlock()
	if v, ok := eng.globRO[g]; ok {
		return v
	}
	ro := true
	if g.Pkg != nil {
		for _, m := range g.Pkg.Members {
			fn, ok := m.(*ssa.Function)
			if !ok {
				continue
			}
			if fn.Name() == "init" {
				continue
			}
			if storesTo(fn, g) {
				ro = false
			}
		}
		// methods
		for _, m := range g.Pkg.Members {
			if ty, ok := m.(*ssa.Type); ok {
				for _, t := range []types.Type{ty.Type(), types.NewPointer(ty.Type())} {
					ms := eng.prog.MethodSets.MethodSet(t)
					for i := 0; i < ms.Len(); i++ {
						if f := eng.prog.MethodValue(ms.At(i)); f != nil && storesTo(f, g) {
							ro = false
						}
					}
				}
			}
		}
	}
	eng.globRO[g] = ro
	return ro
}

func storesTo(fn *ssa.Function, g *ssa.Global) bool {
	for _, b := range fn.Blocks {
		for _, ins := range b.Instrs {
			if s, ok := ins.(*ssa.Store); ok && s.Addr == g {
				return true
			}
		}
	}
	for _, an := range fn.AnonFuncs {
		if storesTo(an, g) {
			return true
		}
	}
	return false
}

func (eng *Engine) globalNonNil(g *ssa.Global) bool {
	t := g.Type().(*types.Pointer).Elem()
	if !types.IsInterface(t) {
		return false
	}
	if !eng.globalReadOnly(g) {
		return false
	}
	// initialised in init by a call (errors.New / fmt.Errorf …)
	if g.Pkg == nil {
		return false
	}
	init := g.Pkg.Func("init")
	if init == nil {
		return false
	}
	for _, b := range init.Blocks {
		for _, ins := range b.Instrs {
			if s, ok := ins.(*ssa.Store); ok && s.Addr == g {
				switch s.Val.(type) {
				case *ssa.Call, *ssa.MakeInterface:
					return true
				}
			}
		}
	}
	return false
}

// autoInline: small loop-free repo helpers without a contract.
func (eng *Engine) autoInline(fn *ssa.Function) bool {
	eng.mu.Lock()
	defer eng.mu.Unlock()
	if v, ok := eng.inlineOK[fn]; ok {
		return v
	}
	ok := false
	defer func() { eng.inlineOK[fn] = ok }()
	if len(fn.Blocks) == 0 || !strings.HasPrefix(pkgPathOf(fn), repoModule) {
		return false
	}
	if eng.db.Funcs[funcKey(fn)] != nil {
		return false
	}
	n := 0
	for _, b := range fn.Blocks {
		for _, s := range b.Succs {
			if isBackEdge(b, s) {
				return false
			}
		}
		for _, ins := range b.Instrs {
			switch x := ins.(type) {
			case *ssa.DebugRef:
				continue
			case *ssa.Call:
				if c := x.Common().StaticCallee(); c == fn {
					return false
				}
			case *ssa.Go, *ssa.Defer, *ssa.Select, *ssa.Send, *ssa.MakeClosure:
				return false
			}
			n++
		}
	}
	ok = n <= 60
	return ok
}

// defineSpec emits the SMT definition of a spec function into the context.
func (eng *Engine) defineSpec(e *CEnv, sf *SpecFunc) {
	fx := e.fx
	if fx.specDone[sf.Name] {
		return
	}
	fx.specDone[sf.Name] = true
	c := fx.c
	name := "spec." + sf.Name
	var sorts []*Sort
	n := &CEnv{fx: fx, fr: e.fr, st: e.st, vars: map[string]CVal{}}
	var params []string
	for _, p := range sf.Params {
		s, signed := n.sortOf(p.Type)
		sorts = append(sorts, s)
		bv := c.BoundVar(p.Name, s)
		n.vars[p.Name] = CVal{V: bv, G: p.Type, Signed: signed}
		params = append(params, fmt.Sprintf("(%s %s)", smtName(bv.Name), s))
	}
	rs, _ := n.sortOf(sf.Ret)
	if sf.Body == nil {
		c.DeclareFun(name, sorts, rs)
		return
	}
	c.defined[name] = true
	if sf.Rec {
		// declare first so that the body can mention it
		body := n.Eval(sf.Body)
		body = n.typed(body, CVal{V: c.Fresh("dummy", rs)})
		pr := &printer{c: c, names: map[int]string{}, out: &strings.Builder{}, used: map[string]bool{}}
		txt := pr.expr(body.V.(*Term))
		c.defs = append(c.defs, fmt.Sprintf("(define-fun-rec %s (%s) %s %s)", smtName(name), strings.Join(params, " "), rs, txt))
		for u := range pr.used {
			c.defUses[u] = true
		}
		return
	}
	body := n.Eval(sf.Body)
	body = n.typed(body, CVal{V: c.Fresh("dummy", rs)})
	bt, ok := body.V.(*Term)
	if !ok || bt.Sort != rs {
		e.fail("spec %s: body has wrong sort", sf.Name)
	}
	pr := &printer{c: c, names: map[int]string{}, out: &strings.Builder{}, used: map[string]bool{}}
	txt := pr.expr(bt)
	c.defs = append(c.defs, fmt.Sprintf("(define-fun %s (%s) %s %s)", smtName(name), strings.Join(params, " "), rs, txt))
	for u := range pr.used {
		c.defUses[u] = true
	}
}

// exprID gives a stable small id to a contract AST node.
func (eng *Engine) exprID(x *CExpr) int {
	eng.mu.Lock()
	defer eng.mu.Unlock()
	if eng.exprIDs == nil {
		eng.exprIDs = map[*CExpr]int{}
	}
	if id, ok := eng.exprIDs[x]; ok {
		return id
	}
	id := len(eng.exprIDs) + 1
	eng.exprIDs[x] = id
	return id
}

// flatName renders a dotted name expression (a.b.c) as a string.
func flatName(x *CExpr) string {
	switch x.Op {
	case "ident":
		return x.Name
	case "field":
		return flatName(x.Args[0]) + "." + x.Name
	case "paren":
		return flatName(x.Args[0])
	case "str":
		s, _ := strconv.Unquote(x.Name)
		return s
	}
	return ""
}

// mentionsCallTrace: the expression uses called()/resultof()/argof()/callcount() (directly or through a macro).
func (eng *Engine) mentionsCallTrace(x *CExpr) bool {
	if x == nil {
		return false
	}
	if x.Op == "call" {
		switch x.Name {
		case "called", "resultof", "argof", "callcount", "seqof":
			return true
		}
		if m, ok := eng.db.Macros[x.Name]; ok && eng.mentionsCallTrace(m.Body) {
			return true
		}
	}
	for _, a := range x.Args {
		if eng.mentionsCallTrace(a) {
			return true
		}
	}
	return false
}

// isStableKey: heap family of a field declared with `stablefield`.
func (eng *Engine) isStableKey(key string) bool {
	if len(eng.db.StableFields) == 0 || !strings.HasPrefix(key, "F|") {
		return false
	}
	if eng.stablePrefixes == nil {
		eng.stablePrefixes = []string{}
		for f := range eng.db.StableFields {
			i := strings.LastIndexByte(f, '.')
			if i > 0 {
				eng.stablePrefixes = append(eng.stablePrefixes, "F|"+f[:i]+"|"+f[i+1:]+"|")
			}
		}
	}
	for _, p := range eng.stablePrefixes {
		if strings.HasPrefix(key, p) {
			return true
		}
	}
	return false
}

// globalNeverWritten: every use of the global in the whole program is a load of the whole value or of an
// element / field (no store, no address passed on).
func (eng *Engine) globalNeverWritten(g *ssa.Global) bool {
	eng.mu.Lock()
	if eng.roGlobals == nil {
		eng.roGlobals = map[*ssa.Global]bool{}
	}
	v, ok := eng.roGlobals[g]
	eng.mu.Unlock()
	if ok {
		return v
	}
	var readOnly func(v ssa.Value, depth int) bool
	readOnly = func(v ssa.Value, depth int) bool {
		refs := v.Referrers()
		if refs == nil || depth > 4 {
			return false
		}
		for _, r := range *refs {
			switch x := r.(type) {
			case *ssa.DebugRef:
			case *ssa.UnOp:
				if x.Op != token.MUL {
					return false
				}
			case *ssa.FieldAddr:
				if !readOnly(x, depth+1) {
					return false
				}
			case *ssa.IndexAddr:
				if x.X != v || !readOnly(x, depth+1) {
					return false
				}
			default:
				return false
			}
		}
		return true
	}
	res := true
	for fn := range ssautil.AllFunctions(eng.prog) {
		for _, b := range fn.Blocks {
			for _, ins := range b.Instrs {
				for _, op := range ins.Operands(nil) {
					if *op != ssa.Value(g) {
						continue
					}
					switch x := ins.(type) {
					case *ssa.UnOp:
						if x.Op != token.MUL {
							res = false
						}
					case *ssa.FieldAddr:
						if !readOnly(x, 0) {
							res = false
						}
					case *ssa.IndexAddr:
						if !readOnly(x, 0) {
							res = false
						}
					case *ssa.DebugRef:
					default:
						res = false
					}
				}
			}
		}
	}
	eng.mu.Lock()
	eng.roGlobals[g] = res
	eng.mu.Unlock()
	return res
}
