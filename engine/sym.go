package main

// Symbolic values and the heap model.
//
// Heap: Burstall-style.  Every struct object and every array object is
// identified by a Ref.  Fields of scalar-ish type live in one SMT array per
// (struct type, field, leaf); struct- and array-typed fields are sub-objects
// reached through injective functions sub_T_f(ref); elements of backing arrays
// live in M|elemType|leaf : Ref -> (BV64 -> leaf) when the element type is
// scalar-ish, and are sub-objects elem_T(ref, idx) when it is a struct or an
// array.  Escaping scalar cells are boxes B|T|leaf : Ref -> leaf.

import (
	"fmt"
	"go/types"
	"regexp"
	"sort"
	"strings"

	"golang.org/x/tools/go/ssa"
)

type Val interface{}

type SliceV struct{ Ref, Off, Len, Cap *Term }
type StrV struct{ Arr, Off, Len *Term }
type IfaceV struct{ Tag, Ref *Term }
type StructV struct{ F []Val }
type TupleV []Val

type PtrKind int

const (
	PLocal     PtrKind = iota // local cell
	PObj                      // struct or array object: Ref
	PField                    // scalar-ish field Field of struct object Ref (type StructT)
	PElem                     // scalar-ish element Idx (absolute) of backing array Ref
	PBox                      // heap cell holding a scalar-ish value of type Elem
	PView                     // array view [N]T over backing array Ref starting at Idx
	PGlobal                   // package-level variable
	PLocalPath                // part of a non-escaping local struct/array kept as a value: Alloc + field path (+ Idx)
	PElemIn                   // element Idx2 of the array-valued element Idx of backing array Ref
)

type PtrV struct {
	Kind    PtrKind
	Alloc   *ssa.Alloc
	Global  *ssa.Global
	Ref     *Term
	StructT types.Type // for PField: the struct type (named if possible)
	Field   int
	Idx     *Term
	Elem    types.Type // pointee type
	Path    []int      // PLocalPath: field indices from the alloc's value down to the pointee (before Idx)
	Idx2    *Term      // PElemIn: index inside the array-valued element
	Outer   types.Type // PElemIn: the array type of the element
}

var (
	byteArr = ArrSort(BV(64), BV(8))
)

// ---- type classification

func under(t types.Type) types.Type { return t.Underlying() }

func isStructT(t types.Type) bool { _, ok := under(t).(*types.Struct); return ok }
func isArrayT(t types.Type) bool  { _, ok := under(t).(*types.Array); return ok }
func isObjT(t types.Type) bool    { return isStructT(t) || isArrayT(t) }

// isElemObj: elements of this type are stored as sub-objects of their backing array.  Arrays of
// scalars are instead stored by value (one SMT array per element), which keeps append/copy and
// comparisons of e.g. []keys.DHPublicKey simple.
func isElemObj(t types.Type) bool {
	if isStructT(t) {
		return true
	}
	return isArrayT(t) && singleSort(t) == nil
}

func intWidth(t types.Type) (w int, signed bool, ok bool) {
	b, isB := under(t).(*types.Basic)
	if !isB {
		return 0, false, false
	}
	switch b.Kind() {
	case types.Int8:
		return 8, true, true
	case types.Int16:
		return 16, true, true
	case types.Int32:
		return 32, true, true
	case types.Int64, types.Int, types.UntypedInt, types.UntypedRune:
		return 64, true, true
	case types.Uint8:
		return 8, false, true
	case types.Uint16:
		return 16, false, true
	case types.Uint32:
		return 32, false, true
	case types.Uint64, types.Uint, types.Uintptr:
		return 64, false, true
	case types.Float32, types.Float64, types.UntypedFloat:
		return 64, false, true // opaque
	}
	return 0, false, false
}

func isFloat(t types.Type) bool {
	b, ok := under(t).(*types.Basic)
	return ok && b.Info()&types.IsFloat != 0
}

func isBoolT(t types.Type) bool {
	b, ok := under(t).(*types.Basic)
	return ok && b.Info()&types.IsBoolean != 0
}
func isStringT(t types.Type) bool {
	b, ok := under(t).(*types.Basic)
	return ok && b.Info()&types.IsString != 0
}

type leaf struct {
	name string
	sort *Sort
}

// singleSort returns the SMT sort of a type representable as one term:
// integers, bools, ref-like types, and arrays of such (by value).
func singleSort(t types.Type) *Sort {
	if w, _, ok := intWidth(t); ok {
		return BV(w)
	}
	if isBoolT(t) {
		return BoolSort
	}
	switch u := under(t).(type) {
	case *types.Pointer, *types.Map, *types.Chan, *types.Signature:
		return RefSort
	case *types.Basic:
		if u.Kind() == types.UnsafePointer || u.Kind() == types.UntypedNil {
			return RefSort
		}
		if u.Info()&types.IsComplex != 0 {
			return BV(64)
		}
	case *types.Array:
		if es := singleSort(u.Elem()); es != nil {
			return ArrSort(BV(64), es)
		}
	}
	return nil
}

// leavesOf gives the leaf layout for scalar-ish (non-struct) types.
func leavesOf(t types.Type) []leaf {
	if s := singleSort(t); s != nil {
		return []leaf{{"", s}}
	}
	if isStringT(t) {
		return []leaf{{"arr", byteArr}, {"off", BV(64)}, {"len", BV(64)}}
	}
	switch under(t).(type) {
	case *types.Slice:
		return []leaf{{"ref", RefSort}, {"off", BV(64)}, {"len", BV(64)}, {"cap", BV(64)}}
	case *types.Interface:
		return []leaf{{"tag", BV(32)}, {"ref", RefSort}}
	case *types.TypeParam:
		return []leaf{{"tag", BV(32)}, {"ref", RefSort}}
	}
	return nil
}

var aliasWord = regexp.MustCompile(`\b(byte|rune|any)\b`)

// typeKey names a type canonically (byte and uint8, rune and int32 are the same type).
func typeKey(t types.Type) string {
	s := types.TypeString(t, func(p *types.Package) string { return p.Name() })
	if strings.Contains(s, "byte") || strings.Contains(s, "rune") || strings.Contains(s, "any") {
		s = aliasWord.ReplaceAllStringFunc(s, func(w string) string {
			switch w {
			case "byte":
				return "uint8"
			case "rune":
				return "int32"
			}
			return "interface{}"
		})
	}
	return s
}

// ---- State

type State struct {
	pc     *Term
	locals map[*ssa.Alloc]Val
	heap   map[string]*Term
	ghost  map[string]Val
	defers []*ssa.Defer
	held   map[string]*Term // lock ghost: key -> Bool held
	epoch  int
}

func (s *State) clone() *State {
	n := &State{pc: s.pc, epoch: s.epoch, locals: make(map[*ssa.Alloc]Val, len(s.locals)), heap: make(map[string]*Term, len(s.heap)), ghost: make(map[string]Val, len(s.ghost)), held: make(map[string]*Term, len(s.held))}
	for k, v := range s.locals {
		n.locals[k] = v
	}
	for k, v := range s.heap {
		n.heap[k] = v
	}
	for k, v := range s.ghost {
		n.ghost[k] = v
	}
	for k, v := range s.held {
		n.held[k] = v
	}
	n.defers = append([]*ssa.Defer{}, s.defers...)
	return n
}

// ---- FnExec: value helpers

type oosError struct{ msg string }

func (fx *FnExec) oos(format string, a ...interface{}) {
	panic(oosError{fmt.Sprintf(format, a...)})
}

func (fx *FnExec) family(st *State, key string, sort *Sort) *Term {
	if t, ok := st.heap[key]; ok {
		if !fx.noAssume && len(fx.pendingAxiom) > 0 {
			if p, ok := fx.pendingAxiom[key]; ok {
				delete(fx.pendingAxiom, key)
				fx.oldRefsAxiom(p.name, p.t, p.epoch)
			}
		}
		return t
	}
	// unknown heap contents of this epoch: a named constant shared by every state of the epoch
	name := fmt.Sprintf("H%d|%s", st.epoch, key)
	if fx.eng.isStableKey(key) {
		name = "HS|" + key // a stable field has one value for the whole execution
	}
	t := fx.c.Const(name, sort)
	st.heap[key] = t
	fx.famSort[key] = sort
	fx.oldRefsAxiom(name, t, st.epoch)
	return t
}

// oldRefsAxiom: every reference held in unknown heap contents of an epoch denotes an object
// allocated before the epoch began (so it differs from every later allocation of this frame).
func (fx *FnExec) oldRefsAxiom(name string, t *Term, epoch int) {
	if fx.famAxiom == nil {
		fx.famAxiom = map[string]bool{}
	}
	if fx.famAxiom[name] || strings.HasPrefix(name[strings.IndexByte(name, '|')+1:], "GF|") {
		return
	}
	if fx.noAssume {
		if fx.pendingAxiom == nil {
			fx.pendingAxiom = map[string]pendingFam{}
		}
		fx.pendingAxiom[name[strings.IndexByte(name, '|')+1:]] = pendingFam{name, t, epoch}
		return
	}
	fx.famAxiom[name] = true
	c := fx.c
	serial := c.BVInt(int64(fx.epochSerial[epoch]), 32)
	s := t.Sort
	if !s.IsArr() || s.Idx != RefSort {
		return
	}
	x := c.BoundVarNamed("x@old."+name, RefSort)
	switch {
	case s.Elem == RefSort:
		v := c.Select(t, x)
		fx.assumeGlobal(c.Forall([]*Term{x}, c.BVCmp("bvule", c.App("born", BV(32), c.App("rootOf", RefSort, v)), serial), []*Term{v}))
	case s.Elem.IsArr() && s.Elem.Elem == RefSort:
		i := c.BoundVarNamed("i@old."+name, s.Elem.Idx)
		v := c.Select(c.Select(t, x), i)
		fx.assumeGlobal(c.Forall([]*Term{x, i}, c.BVCmp("bvule", c.App("born", BV(32), c.App("rootOf", RefSort, v)), serial), []*Term{v}))
	}
}

func (fx *FnExec) setFamily(st *State, key string, t *Term) {
	fx.famSort[key] = t.Sort
	st.heap[key] = t
}

func fieldFamKey(structT types.Type, field int, lf string) string {
	st := under(structT).(*types.Struct)
	return "F|" + typeKey(structT) + "|" + st.Field(field).Name() + "|" + lf
}
func elemFamKey(elemT types.Type, lf string) string { return "M|" + typeKey(elemT) + "|" + lf }
func boxFamKey(t types.Type, lf string) string      { return "B|" + typeKey(t) + "|" + lf }

func (fx *FnExec) subRef(structT types.Type, field int, ref *Term) *Term {
	st := under(structT).(*types.Struct)
	name := "sub|" + typeKey(structT) + "|" + st.Field(field).Name()
	t := fx.c.App(name, RefSort, ref)
	fx.subNonNil(t)
	fx.arrayLenFact(t, st.Field(field).Type())
	return t
}

// arrayLenFact: an array-typed field or element is an array object of exactly its type's length;
// together with off+cap <= alen(ref) for every slice value this keeps a slice whose window is longer
// than N from aliasing an [N]T field.
func (fx *FnExec) arrayLenFact(ref *Term, t types.Type) {
	at, ok := under(t).(*types.Array)
	if !ok || ref.open || fx.noAssume {
		return
	}
	if fx.alenSeen == nil {
		fx.alenSeen = map[*Term]bool{}
	}
	if fx.alenSeen[ref] {
		return
	}
	fx.alenSeen[ref] = true
	fx.assumeGlobal(fx.c.Eq(fx.c.App("alen", BV(64), ref), fx.bv64(at.Len())))
}

// subNonNil: ground facts for a closed interior reference: never nil, interior (distinct from
// every top-level allocation), injective (owner / indexOf), rooted where its owner is rooted.
func (fx *FnExec) subNonNil(t *Term) {
	if fx.subSeen == nil {
		fx.subSeen = map[*Term]bool{}
	}
	if fx.subSeen[t] || fx.noAssume {
		return
	}
	fx.subSeen[t] = true
	c := fx.c
	if t.open {
		// formed under a quantifier: the symbol-level (quantified) version of the same facts
		fx.subSeen[t] = false
		fx.interiorAxioms(t.Name, len(t.Args))
		return
	}
	fx.assumeGlobal(c.Not(c.Eq(t, fx.nilRef())))
	fx.assumeGlobal(c.App("interior", BoolSort, t))
	fx.assumeGlobal(c.Eq(c.App("owner", RefSort, t), t.Args[0]))
	fx.assumeGlobal(c.Eq(c.App("rootOf", RefSort, t), c.App("rootOf", RefSort, t.Args[0])))
	fx.assumeGlobal(c.Eq(c.App("kindOf", BV(32), t), c.BVInt(int64(fx.eng.typeTagByName(t.Name)), 32)))
	if len(t.Args) == 2 {
		fx.assumeGlobal(c.Eq(c.App("indexOf", BV(64), t), t.Args[1]))
	}
}

// interiorAxioms emits the quantified (symbol-level) version of the interior-reference facts for
// one function symbol; used where references under quantifiers must be reasoned about
// (element-wise copies of struct slices).
func (fx *FnExec) interiorAxioms(name string, arity int) {
	if fx.symSeen == nil {
		fx.symSeen = map[string]bool{}
	}
	if fx.symSeen[name] || fx.noAssume {
		return
	}
	fx.symSeen[name] = true
	c := fx.c
	x := c.BoundVarNamed("x@ax."+name, RefSort)
	var app *Term
	bound := []*Term{x}
	if arity == 2 {
		i := c.BoundVarNamed("i@ax."+name, BV(64))
		bound = append(bound, i)
		app = c.App(name, RefSort, x, i)
	} else {
		app = c.App(name, RefSort, x)
	}
	facts := []*Term{
		c.Not(c.Eq(app, fx.nilRef())),
		c.App("interior", BoolSort, app),
		c.Eq(c.App("owner", RefSort, app), x),
		c.Eq(c.App("rootOf", RefSort, app), c.App("rootOf", RefSort, x)),
	}
	if arity == 2 {
		facts = append(facts, c.Eq(c.App("indexOf", BV(64), app), bound[1]))
	}
	fx.assumeGlobal(c.Forall(bound, c.And(facts...), []*Term{app}))
}

func (fx *FnExec) elemRef(elemT types.Type, ref, idx *Term) *Term {
	t := fx.c.App("elem|"+typeKey(elemT), RefSort, ref, idx)
	fx.subNonNil(t)
	fx.arrayLenFact(t, elemT)
	return t
}

func (fx *FnExec) nilRef() *Term { return fx.c.Const("nil", RefSort) }

func (fx *FnExec) newRef(what string) *Term {
	r := fx.c.Fresh("new", RefSort)
	fx.freshRefs = append(fx.freshRefs, r)
	c := fx.c
	fx.assumeGlobal(c.Not(c.Eq(r, fx.nilRef())))
	fx.assumeGlobal(c.Not(c.App("interior", BoolSort, r)))
	// allocation serial: distinct from every other allocation and from everything that existed at entry
	fx.assumeGlobal(c.Eq(c.App("born", BV(32), r), c.BVInt(int64(len(fx.freshRefs)), 32)))
	fx.assumeGlobal(c.Eq(c.App("rootOf", RefSort, r), r))
	return r
}

func (fx *FnExec) bv64(v int64) *Term { return fx.c.BVInt(v, 64) }

// zeroVal returns the zero value of a type.
func (fx *FnExec) zeroVal(t types.Type) Val {
	c := fx.c
	if w, _, ok := intWidth(t); ok {
		return c.BVInt(0, w)
	}
	if isBoolT(t) {
		return c.False()
	}
	if isStringT(t) {
		return StrV{c.ConstArr(byteArr, c.BVInt(0, 8)), fx.bv64(0), fx.bv64(0)}
	}
	switch u := under(t).(type) {
	case *types.Slice:
		return SliceV{fx.nilRef(), fx.bv64(0), fx.bv64(0), fx.bv64(0)}
	case *types.Interface, *types.TypeParam:
		return IfaceV{c.BVInt(0, 32), fx.nilRef()}
	case *types.Pointer:
		return fx.ptrFromRef(u.Elem(), fx.nilRef())
	case *types.Struct:
		sv := StructV{}
		for i := 0; i < u.NumFields(); i++ {
			sv.F = append(sv.F, fx.zeroVal(u.Field(i).Type()))
		}
		return sv
	case *types.Array:
		if s := singleSort(t); s != nil {
			z := fx.zeroVal(u.Elem())
			return c.ConstArr(s, z.(*Term))
		}
		fx.oos("array value with composite element type %s", t)
	case *types.Tuple:
		var tv TupleV
		for i := 0; i < u.Len(); i++ {
			tv = append(tv, fx.zeroVal(u.At(i).Type()))
		}
		return tv
	}
	if s := singleSort(t); s != nil {
		if s == RefSort {
			return fx.nilRef()
		}
	}
	fx.oos("zero value of type %s", t)
	return nil
}

// freshVal returns an unconstrained value of type t (with Go's representation
// invariants assumed).
// notYounger: a reference appearing now denotes an object allocated no later than now.
func (fx *FnExec) notYounger(r *Term) {
	c := fx.c
	fx.assumeGlobal(c.BVCmp("bvule", c.App("born", BV(32), c.App("rootOf", RefSort, r)), c.BVInt(int64(len(fx.freshRefs)), 32)))
}

func (fx *FnExec) freshVal(t types.Type, name string) Val {
	v := fx.freshVal0(t, name)
	switch x := v.(type) {
	case PtrV:
		if x.Ref != nil {
			fx.notYounger(x.Ref)
		}
	case SliceV:
		fx.notYounger(x.Ref)
	case IfaceV:
		fx.notYounger(x.Ref)
	case *Term:
		if x.Sort == RefSort {
			fx.notYounger(x)
		}
	}
	return v
}

func (fx *FnExec) freshVal0(t types.Type, name string) Val {
	c := fx.c
	if isStringT(t) {
		s := StrV{c.Fresh(name+".arr", byteArr), c.Fresh(name+".off", BV(64)), c.Fresh(name+".len", BV(64))}
		fx.assumeStrInv(s)
		return s
	}
	if s := singleSort(t); s != nil {
		if p, ok := under(t).(*types.Pointer); ok {
			return fx.ptrFromRef(p.Elem(), c.Fresh(name, RefSort))
		}
		return c.Fresh(name, s)
	}
	switch u := under(t).(type) {
	case *types.Slice:
		s := SliceV{c.Fresh(name+".ref", RefSort), c.Fresh(name+".off", BV(64)), c.Fresh(name+".len", BV(64)), c.Fresh(name+".cap", BV(64))}
		fx.assumeSliceInv(s)
		return s
	case *types.Interface, *types.TypeParam:
		iv := IfaceV{c.Fresh(name+".tag", BV(32)), c.Fresh(name+".ref", RefSort)}
		return iv
	case *types.Struct:
		sv := StructV{}
		for i := 0; i < u.NumFields(); i++ {
			sv.F = append(sv.F, fx.freshVal(u.Field(i).Type(), name+"."+u.Field(i).Name()))
		}
		return sv
	case *types.Tuple:
		var tv TupleV
		for i := 0; i < u.Len(); i++ {
			tv = append(tv, fx.freshVal(u.At(i).Type(), fmt.Sprintf("%s.%d", name, i)))
		}
		return tv
	}
	fx.oos("fresh value of type %s", t)
	return nil
}

// lengths and offsets are below 2^45: an object cannot exceed the amd64 user address space
const maxLenBits = 45

func (fx *FnExec) assumeSliceInv(s SliceV) {
	c := fx.c
	if (s.Ref.open || s.Off.open || s.Len.open || s.Cap.open) && fx.noOpenInv {
		return // value read under a quantifier: representation invariants not instantiated (contract option)
	}
	z := fx.bv64(0)
	lim := c.BVConst(mask(maxLenBits), 64)
	fx.assumeGlobal(c.And(
		c.BVCmp("bvsle", z, s.Off), c.BVCmp("bvsle", z, s.Len), c.BVCmp("bvsle", s.Len, s.Cap),
		c.BVCmp("bvsle", s.Cap, lim), c.BVCmp("bvsle", s.Off, lim),
		c.Implies(c.Eq(s.Ref, fx.nilRef()), c.Eq(s.Cap, z)),
		// the window lies inside the array object it points into
		c.BVCmp("bvsle", c.BVBin("bvadd", s.Off, s.Cap), c.App("alen", BV(64), s.Ref))))
}

func (fx *FnExec) assumeStrInv(s StrV) {
	c := fx.c
	if (s.Arr.open || s.Off.open || s.Len.open) && fx.noOpenInv {
		return
	}
	z := fx.bv64(0)
	lim := c.BVConst(mask(maxLenBits), 64)
	fx.assumeGlobal(c.And(c.BVCmp("bvsle", z, s.Off), c.BVCmp("bvsle", z, s.Len), c.BVCmp("bvsle", s.Len, lim), c.BVCmp("bvsle", s.Off, lim)))
}

// ptrFromRef builds the pointer value for a *elem whose SMT representation is ref.
func (fx *FnExec) ptrFromRef(elem types.Type, ref *Term) PtrV {
	if isObjT(elem) {
		return PtrV{Kind: PObj, Ref: ref, Elem: elem}
	}
	return PtrV{Kind: PBox, Ref: ref, Elem: elem}
}

// ptrRef gives the Ref term of a pointer that is representable in SMT.
func (fx *FnExec) ptrRef(p PtrV) *Term {
	switch p.Kind {
	case PObj, PBox:
		return p.Ref
	}
	fx.oos("pointer to field/element/local used as a first-class value")
	return nil
}

// ---- leaves <-> Val for scalar-ish types

func (fx *FnExec) toLeaves(t types.Type, v Val) []*Term {
	switch x := v.(type) {
	case *Term:
		return []*Term{x}
	case SliceV:
		return []*Term{x.Ref, x.Off, x.Len, x.Cap}
	case StrV:
		return []*Term{x.Arr, x.Off, x.Len}
	case IfaceV:
		return []*Term{x.Tag, x.Ref}
	case PtrV:
		return []*Term{fx.ptrRef(x)}
	}
	fx.oos("toLeaves: unexpected value %T for type %s", v, t)
	return nil
}

func (fx *FnExec) fromLeaves(t types.Type, ls []*Term, check bool) Val {
	if isStringT(t) {
		s := StrV{ls[0], ls[1], ls[2]}
		if check {
			fx.assumeStrInv(s)
		}
		return s
	}
	switch u := under(t).(type) {
	case *types.Slice:
		s := SliceV{ls[0], ls[1], ls[2], ls[3]}
		if check {
			fx.assumeSliceInv(s)
		}
		return s
	case *types.Interface, *types.TypeParam:
		return IfaceV{ls[0], ls[1]}
	case *types.Pointer:
		return fx.ptrFromRef(u.Elem(), ls[0])
	}
	return ls[0]
}

// ---- heap access

// loadField reads field i of the struct object ref.
func (fx *FnExec) loadField(st *State, structT types.Type, i int, ref *Term) Val {
	s := under(structT).(*types.Struct)
	ft := s.Field(i).Type()
	if isObjT(ft) {
		return fx.loadObj(st, ft, fx.subRef(structT, i, ref))
	}
	var ls []*Term
	for _, lf := range leavesOf(ft) {
		fam := fx.family(st, fieldFamKey(structT, i, lf.name), ArrSort(RefSort, lf.sort))
		ls = append(ls, fx.c.Select(fam, ref))
	}
	if ls == nil {
		fx.oos("field of unsupported type %s", ft)
	}
	return fx.fromLeaves(ft, ls, true)
}

func (fx *FnExec) storeField(st *State, structT types.Type, i int, ref *Term, v Val) {
	s := under(structT).(*types.Struct)
	ft := s.Field(i).Type()
	if isObjT(ft) {
		fx.storeObj(st, ft, fx.subRef(structT, i, ref), v)
		return
	}
	lvs := fx.toLeaves(ft, v)
	for k, lf := range leavesOf(ft) {
		key := fieldFamKey(structT, i, lf.name)
		fam := fx.family(st, key, ArrSort(RefSort, lf.sort))
		fx.setFamily(st, key, fx.c.Store(fam, ref, lvs[k]))
	}
}

// loadObj reads a whole struct or array object as a value.
func (fx *FnExec) loadObj(st *State, t types.Type, ref *Term) Val {
	switch u := under(t).(type) {
	case *types.Struct:
		sv := StructV{}
		for i := 0; i < u.NumFields(); i++ {
			sv.F = append(sv.F, fx.loadField(st, t, i, ref))
		}
		return sv
	case *types.Array:
		et := u.Elem()
		if es := singleSort(et); es != nil && !isObjT(et) {
			fam := fx.family(st, elemFamKey(et, ""), ArrSort(RefSort, ArrSort(BV(64), es)))
			return fx.c.Select(fam, ref)
		}
		if es := singleSort(et); es != nil {
			// array of arrays: gather element sub-objects
			n := u.Len()
			if n > 64 {
				fx.oos("large nested array value %s", t)
			}
			arr := fx.c.Fresh("arrval", ArrSort(BV(64), es))
			var a *Term = arr
			for k := int64(0); k < n; k++ {
				ev := fx.loadObj(st, et, fx.elemRef(et, ref, fx.bv64(k)))
				a = fx.c.Store(a, fx.bv64(k), ev.(*Term))
			}
			return a
		}
		fx.oos("array object with composite element type %s", t)
	}
	fx.oos("loadObj of %s", t)
	return nil
}

func (fx *FnExec) storeObj(st *State, t types.Type, ref *Term, v Val) {
	switch u := under(t).(type) {
	case *types.Struct:
		sv, ok := v.(StructV)
		if !ok {
			fx.oos("storeObj: struct value expected for %s, got %T", t, v)
		}
		for i := 0; i < u.NumFields(); i++ {
			fx.storeField(st, t, i, ref, sv.F[i])
		}
		return
	case *types.Array:
		et := u.Elem()
		if es := singleSort(et); es != nil && !isObjT(et) {
			key := elemFamKey(et, "")
			fam := fx.family(st, key, ArrSort(RefSort, ArrSort(BV(64), es)))
			fx.setFamily(st, key, fx.c.Store(fam, ref, v.(*Term)))
			return
		}
		if es := singleSort(et); es != nil {
			n := u.Len()
			if n > 64 {
				fx.oos("large nested array value %s", t)
			}
			for k := int64(0); k < n; k++ {
				fx.storeObj(st, et, fx.elemRef(et, ref, fx.bv64(k)), fx.c.Select(v.(*Term), fx.bv64(k)))
			}
			return
		}
		fx.oos("array object with composite element type %s", t)
	}
	fx.oos("storeObj of %s", t)
}

// loadElem reads element idx (absolute index) of backing array ref.
func (fx *FnExec) loadElem(st *State, et types.Type, ref, idx *Term) Val {
	if isElemObj(et) {
		return fx.loadObj(st, et, fx.elemRef(et, ref, idx))
	}
	var ls []*Term
	for _, lf := range leavesOf(et) {
		fam := fx.family(st, elemFamKey(et, lf.name), ArrSort(RefSort, ArrSort(BV(64), lf.sort)))
		ls = append(ls, fx.c.Select(fx.c.Select(fam, ref), idx))
	}
	if ls == nil {
		fx.oos("element of unsupported type %s", et)
	}
	return fx.fromLeaves(et, ls, true)
}

func (fx *FnExec) storeElem(st *State, et types.Type, ref, idx *Term, v Val) {
	if isElemObj(et) {
		fx.storeObj(st, et, fx.elemRef(et, ref, idx), v)
		return
	}
	lvs := fx.toLeaves(et, v)
	for k, lf := range leavesOf(et) {
		key := elemFamKey(et, lf.name)
		fam := fx.family(st, key, ArrSort(RefSort, ArrSort(BV(64), lf.sort)))
		inner := fx.c.Select(fam, ref)
		ninner := fx.c.Store(inner, idx, lvs[k])
		fx.setFamily(st, key, fx.c.Store(fam, ref, ninner))
		fx.curPC = st.pc
		fx.arrayUpdated(inner, ninner, idx, fx.bv64(1))
	}
}

func (fx *FnExec) loadBox(st *State, t types.Type, ref *Term) Val {
	var ls []*Term
	for _, lf := range leavesOf(t) {
		fam := fx.family(st, boxFamKey(t, lf.name), ArrSort(RefSort, lf.sort))
		ls = append(ls, fx.c.Select(fam, ref))
	}
	if ls == nil {
		fx.oos("box of unsupported type %s", t)
	}
	return fx.fromLeaves(t, ls, true)
}

func (fx *FnExec) storeBox(st *State, t types.Type, ref *Term, v Val) {
	lvs := fx.toLeaves(t, v)
	for k, lf := range leavesOf(t) {
		key := boxFamKey(t, lf.name)
		fam := fx.family(st, key, ArrSort(RefSort, lf.sort))
		fx.setFamily(st, key, fx.c.Store(fam, ref, lvs[k]))
	}
}

// elemArray returns the whole backing array (BV64 -> leaf) of ref for a
// single-leaf element type.
func (fx *FnExec) elemArray(st *State, et types.Type, ref *Term) *Term {
	es := singleSort(et)
	if es == nil || isElemObj(et) {
		fx.oos("elemArray of %s", et)
	}
	fam := fx.family(st, elemFamKey(et, ""), ArrSort(RefSort, ArrSort(BV(64), es)))
	return fx.c.Select(fam, ref)
}

func (fx *FnExec) setElemArray(st *State, et types.Type, ref, arr *Term) {
	key := elemFamKey(et, "")
	fam := fx.family(st, key, ArrSort(RefSort, arr.Sort))
	fx.setFamily(st, key, fx.c.Store(fam, ref, arr))
}

// load / store through a pointer value
// localPathGet / localPathSet navigate a local struct value.
func (fx *FnExec) localPathGet(v Val, path []int) Val {
	for _, i := range path {
		sv, ok := v.(StructV)
		if !ok {
			fx.oos("local object path through non-struct value")
		}
		v = sv.F[i]
	}
	return v
}

func (fx *FnExec) localPathSet(v Val, path []int, nv Val) Val {
	if len(path) == 0 {
		return nv
	}
	sv, ok := v.(StructV)
	if !ok {
		fx.oos("local object path through non-struct value")
	}
	out := StructV{F: append([]Val{}, sv.F...)}
	out.F[path[0]] = fx.localPathSet(sv.F[path[0]], path[1:], nv)
	return out
}

func (fx *FnExec) load(st *State, p PtrV) Val {
	switch p.Kind {
	case PLocalPath:
		root, ok := st.locals[p.Alloc]
		if !ok {
			root = fx.zeroVal(p.Alloc.Type().(*types.Pointer).Elem())
		}
		v := fx.localPathGet(root, p.Path)
		if p.Idx != nil {
			return fx.c.Select(v.(*Term), p.Idx)
		}
		return v
	case PLocal:
		v, ok := st.locals[p.Alloc]
		if !ok {
			return fx.zeroVal(p.Elem)
		}
		return v
	case PObj:
		return fx.loadObj(st, p.Elem, p.Ref)
	case PField:
		return fx.loadField(st, p.StructT, p.Field, p.Ref)
	case PElem:
		return fx.loadElem(st, p.Elem, p.Ref, p.Idx)
	case PElemIn:
		return fx.c.Select(fx.loadElem(st, p.Outer, p.Ref, p.Idx).(*Term), p.Idx2)
	case PBox:
		return fx.loadBox(st, p.Elem, p.Ref)
	case PGlobal:
		return fx.loadGlobal(st, p.Global)
	case PView:
		arrT := under(p.Elem).(*types.Array)
		src := fx.elemArray(st, arrT.Elem(), p.Ref)
		if p.Idx.Op == "bv" && p.Idx.Val.Sign() == 0 {
			return src
		}
		n := arrT.Len()
		if n > 64 {
			fx.oos("large array view")
		}
		a := fx.c.ConstArr(src.Sort, fx.zeroVal(arrT.Elem()).(*Term))
		for k := int64(0); k < n; k++ {
			a = fx.c.Store(a, fx.bv64(k), fx.c.Select(src, fx.c.BVBin("bvadd", p.Idx, fx.bv64(k))))
		}
		if src.Sort == byteArr {
			fx.assumeGlobal(fx.c.Eq(fx.rngTerm(a, fx.bv64(0), fx.bv64(n)), fx.rngTerm(src, p.Idx, fx.bv64(n))))
		}
		return a
	}
	fx.oos("load through pointer kind %d", p.Kind)
	return nil
}

func (fx *FnExec) store(st *State, p PtrV, v Val) {
	switch p.Kind {
	case PLocalPath:
		root, ok := st.locals[p.Alloc]
		if !ok {
			root = fx.zeroVal(p.Alloc.Type().(*types.Pointer).Elem())
		}
		if p.Idx != nil {
			arr := fx.localPathGet(root, p.Path).(*Term)
			v = fx.c.Store(arr, p.Idx, v.(*Term))
		}
		st.locals[p.Alloc] = fx.localPathSet(root, p.Path, v)
	case PLocal:
		st.locals[p.Alloc] = v
	case PObj:
		fx.storeObj(st, p.Elem, p.Ref, v)
	case PField:
		fx.storeField(st, p.StructT, p.Field, p.Ref, v)
	case PElem:
		fx.storeElem(st, p.Elem, p.Ref, p.Idx, v)
	case PElemIn:
		arr := fx.loadElem(st, p.Outer, p.Ref, p.Idx).(*Term)
		fx.storeElem(st, p.Outer, p.Ref, p.Idx, fx.c.Store(arr, p.Idx2, v.(*Term)))
	case PBox:
		fx.storeBox(st, p.Elem, p.Ref, v)
	case PGlobal:
		fx.storeGlobal(st, p.Global, v)
	default:
		fx.oos("store through pointer kind %d", p.Kind)
	}
}

func globalKey(g *ssa.Global) string { return "G|" + g.Pkg.Pkg.Path() + "." + g.Name() }

func (fx *FnExec) loadGlobal(st *State, g *ssa.Global) Val {
	t := g.Type().(*types.Pointer).Elem()
	if isObjT(t) {
		if fx.eng.globalNeverWritten(g) {
			if _, isArr := under(t).(*types.Array); isArr && singleSort(t) != nil {
				// a package-level array that no instruction of the program ever stores to (not even its
				// package initialiser) or takes the address of: it holds its zero value forever
				return fx.zeroVal(t)
			}
		}
		return fx.loadObj(st, t, fx.c.Const(globalKey(g), RefSort))
	}
	var ls []*Term
	for _, lf := range leavesOf(t) {
		key := globalKey(g) + "|" + lf.name
		if cur, ok := st.heap[key]; ok {
			ls = append(ls, cur)
		} else {
			ls = append(ls, fx.c.Const(key, lf.sort))
		}
	}
	if ls == nil {
		fx.oos("global of unsupported type %s", t)
	}
	v := fx.fromLeaves(t, ls, true)
	// error sentinels and other interface-typed globals initialised once: non-nil
	if iv, ok := v.(IfaceV); ok && fx.eng.globalNonNil(g) {
		fx.assumeGlobal(fx.c.Not(fx.c.Eq(iv.Tag, fx.c.BVInt(0, 32))))
		// distinct sentinels are distinct objects
		fx.assumeGlobal(fx.c.Eq(fx.c.App("sentinelOf", BV(32), iv.Ref), fx.c.BVInt(int64(fx.eng.globalID(g)), 32)))
	}
	return v
}

func (fx *FnExec) storeGlobal(st *State, g *ssa.Global, v Val) {
	t := g.Type().(*types.Pointer).Elem()
	if isObjT(t) {
		fx.storeObj(st, t, fx.c.Const(globalKey(g), RefSort), v)
		return
	}
	lvs := fx.toLeaves(t, v)
	for k, lf := range leavesOf(t) {
		st.heap[globalKey(g)+"|"+lf.name] = lvs[k]
	}
}

// ---- merging

func (fx *FnExec) mergeTerm(cond, a, b *Term) *Term {
	if a == b {
		return a
	}
	return fx.c.Ite(cond, a, b)
}

// mergeVal returns ite(cond, a, b) componentwise.
func (fx *FnExec) mergeVal(cond *Term, a, b Val) Val {
	switch x := a.(type) {
	case *Term:
		y, ok := b.(*Term)
		if !ok || x.Sort != y.Sort {
			fx.oos("merge of incompatible values")
		}
		return fx.mergeTerm(cond, x, y)
	case SliceV:
		y := b.(SliceV)
		return SliceV{fx.mergeTerm(cond, x.Ref, y.Ref), fx.mergeTerm(cond, x.Off, y.Off), fx.mergeTerm(cond, x.Len, y.Len), fx.mergeTerm(cond, x.Cap, y.Cap)}
	case StrV:
		y := b.(StrV)
		return StrV{fx.mergeTerm(cond, x.Arr, y.Arr), fx.mergeTerm(cond, x.Off, y.Off), fx.mergeTerm(cond, x.Len, y.Len)}
	case IfaceV:
		y := b.(IfaceV)
		return IfaceV{fx.mergeTerm(cond, x.Tag, y.Tag), fx.mergeTerm(cond, x.Ref, y.Ref)}
	case StructV:
		y := b.(StructV)
		r := StructV{}
		for i := range x.F {
			r.F = append(r.F, fx.mergeVal(cond, x.F[i], y.F[i]))
		}
		return r
	case TupleV:
		y := b.(TupleV)
		var r TupleV
		for i := range x {
			r = append(r, fx.mergeVal(cond, x[i], y[i]))
		}
		return r
	case PtrV:
		y := b.(PtrV)
		if x.Kind != y.Kind {
			// a nil pointer merges with anything
			if y.Ref != nil && y.Ref == fx.nilRef() && (x.Kind == PObj || x.Kind == PBox) {
				y.Kind = x.Kind
			} else if x.Ref != nil && x.Ref == fx.nilRef() && (y.Kind == PObj || y.Kind == PBox) {
				x.Kind = y.Kind
			} else {
				fx.oos("merge of pointers of different shape (%d vs %d)", x.Kind, y.Kind)
			}
		}
		switch x.Kind {
		case PLocalPath:
			if x.Alloc != y.Alloc || len(x.Path) != len(y.Path) {
				fx.oos("merge of pointers into different local objects")
			}
			for i := range x.Path {
				if x.Path[i] != y.Path[i] {
					fx.oos("merge of pointers into different local objects")
				}
			}
			r := x
			if x.Idx != nil && y.Idx != nil {
				r.Idx = fx.mergeTerm(cond, x.Idx, y.Idx)
			}
			return r
		case PLocal:
			if x.Alloc != y.Alloc {
				fx.oos("merge of pointers to different locals")
			}
			return x
		case PGlobal:
			if x.Global != y.Global {
				fx.oos("merge of pointers to different globals")
			}
			return x
		case PObj, PBox:
			return PtrV{Kind: x.Kind, Ref: fx.mergeTerm(cond, x.Ref, y.Ref), Elem: x.Elem}
		case PField:
			if x.Field != y.Field || !types.Identical(x.StructT, y.StructT) {
				fx.oos("merge of pointers to different fields")
			}
			return PtrV{Kind: PField, Ref: fx.mergeTerm(cond, x.Ref, y.Ref), StructT: x.StructT, Field: x.Field, Elem: x.Elem}
		case PElem, PView:
			return PtrV{Kind: x.Kind, Ref: fx.mergeTerm(cond, x.Ref, y.Ref), Idx: fx.mergeTerm(cond, x.Idx, y.Idx), Elem: x.Elem}
		case PElemIn:
			return PtrV{Kind: x.Kind, Ref: fx.mergeTerm(cond, x.Ref, y.Ref), Idx: fx.mergeTerm(cond, x.Idx, y.Idx), Idx2: fx.mergeTerm(cond, x.Idx2, y.Idx2), Elem: x.Elem, Outer: x.Outer}
		}
	case nil:
		return b
	}
	fx.oos("merge of %T", a)
	return nil
}

func sameVal(a, b Val) bool {
	switch x := a.(type) {
	case *Term:
		y, ok := b.(*Term)
		return ok && x == y
	case SliceV:
		y, ok := b.(SliceV)
		return ok && x == y
	case StrV:
		y, ok := b.(StrV)
		return ok && x == y
	case IfaceV:
		y, ok := b.(IfaceV)
		return ok && x == y
	case PtrV:
		y, ok := b.(PtrV)
		if !(ok && x.Kind == y.Kind && x.Alloc == y.Alloc && x.Ref == y.Ref && x.Idx == y.Idx && x.Field == y.Field && x.Global == y.Global && len(x.Path) == len(y.Path)) {
			return false
		}
		for i := range x.Path {
			if x.Path[i] != y.Path[i] {
				return false
			}
		}
		return true
	case StructV:
		y, ok := b.(StructV)
		if !ok || len(x.F) != len(y.F) {
			return false
		}
		for i := range x.F {
			if !sameVal(x.F[i], y.F[i]) {
				return false
			}
		}
		return true
	case TupleV:
		y, ok := b.(TupleV)
		if !ok || len(x) != len(y) {
			return false
		}
		for i := range x {
			if !sameVal(x[i], y[i]) {
				return false
			}
		}
		return true
	}
	return false
}

type incoming struct {
	st   *State
	cond *Term // full path condition of this edge
}

// mergeStates joins the states of the incoming (mutually exclusive) edges.
func (fx *FnExec) mergeStates(ins []incoming) *State {
	if len(ins) == 1 {
		s := ins[0].st.clone()
		s.pc = ins[0].cond
		return s
	}
	c := fx.c
	res := ins[len(ins)-1].st.clone()
	res.pc = ins[len(ins)-1].cond
	// epoch under which a family missing from res would have been materialised
	resEpoch := map[string]int{}
	lastEpoch := res.epoch
	for _, in := range ins {
		for key := range in.st.heap {
			if _, ok := res.heap[key]; !ok {
				resEpoch[key] = lastEpoch
			}
		}
	}
	mixed := false
	for _, in := range ins[:len(ins)-1] {
		if in.st.epoch != lastEpoch {
			mixed = true
			// different epochs: materialise every family known to either side
			var fks []string
			for key := range fx.famSort {
				fks = append(fks, key)
			}
			sort.Strings(fks)
			for _, key := range fks {
				if strings.HasPrefix(key, "G|") {
					continue
				}
				fx.family(res, key, fx.famSort[key])
				fx.family(in.st, key, fx.famSort[key])
			}
		}
	}
	if mixed {
		// families first touched after this join must not be identified with any one branch's epoch
		res.epoch = fx.nextEpoch()
	}
	for k := len(ins) - 2; k >= 0; k-- {
		in := ins[k]
		cond := in.cond
		// locals
		var las []*ssa.Alloc
		for a := range in.st.locals {
			las = append(las, a)
		}
		sort.Slice(las, func(i, j int) bool {
			if las[i].Pos() != las[j].Pos() {
				return las[i].Pos() < las[j].Pos()
			}
			return las[i].Name() < las[j].Name()
		})
		for _, a := range las {
			v := in.st.locals[a]
			if rv, ok := res.locals[a]; ok {
				if !sameVal(v, rv) {
					res.locals[a] = fx.mergeVal(cond, v, rv)
				}
			} else {
				res.locals[a] = v
			}
		}
		keys := map[string]bool{}
		for key := range in.st.heap {
			keys[key] = true
		}
		for key := range res.heap {
			keys[key] = true
		}
		var ks []string
		for key := range keys {
			ks = append(ks, key)
		}
		sort.Strings(ks)
		for _, key := range ks {
			a, aok := in.st.heap[key]
			b, bok := res.heap[key]
			if !aok {
				if strings.HasPrefix(key, "G|") {
					a = c.Const(key, b.Sort)
				} else {
					a = c.Const(fmt.Sprintf("H%d|%s", in.st.epoch, key), b.Sort)
				}
			}
			if !bok {
				if strings.HasPrefix(key, "G|") {
					b = c.Const(key, a.Sort)
				} else {
					b = c.Const(fmt.Sprintf("H%d|%s", resEpoch[key], key), a.Sort)
				}
			}
			res.heap[key] = fx.mergeTerm(cond, a, b)
		}
		var gks []string
		for g := range in.st.ghost {
			gks = append(gks, g)
		}
		sort.Strings(gks)
		for _, g := range gks {
			v := in.st.ghost[g]
			if rv, ok := res.ghost[g]; ok {
				if !sameVal(v, rv) {
					res.ghost[g] = fx.mergeVal(cond, v, rv)
				}
			} else if strings.HasSuffix(g, "|called") {
				res.ghost[g] = fx.mergeVal(cond, v, c.False())
			} else if strings.HasSuffix(g, "|count") || strings.HasSuffix(g, "|seq") || g == "callseq" {
				res.ghost[g] = fx.mergeVal(cond, v, fx.bv64(0))
			} else {
				res.ghost[g] = v
			}
		}
		var rks []string
		for g := range res.ghost {
			rks = append(rks, g)
		}
		sort.Strings(rks)
		for _, g := range rks {
			rv := res.ghost[g]
			if _, ok := in.st.ghost[g]; !ok {
				if strings.HasSuffix(g, "|called") {
					res.ghost[g] = fx.mergeVal(cond, c.False(), rv)
				} else if strings.HasSuffix(g, "|count") || strings.HasSuffix(g, "|seq") || g == "callseq" {
					res.ghost[g] = fx.mergeVal(cond, fx.bv64(0), rv)
				}
			}
		}
		var hks []string
		for h := range in.st.held {
			hks = append(hks, h)
		}
		sort.Strings(hks)
		for _, h := range hks {
			v := in.st.held[h]
			if rv, ok := res.held[h]; ok {
				res.held[h] = fx.mergeTerm(cond, v, rv)
			} else {
				res.held[h] = fx.mergeTerm(cond, v, c.False())
			}
		}
		for h, rv := range res.held {
			if _, ok := in.st.held[h]; !ok {
				res.held[h] = fx.mergeTerm(cond, c.False(), rv)
			}
		}
		if len(in.st.defers) != len(res.defers) {
			if len(in.st.defers) > len(res.defers) {
				fx.condDefers = true
				res.defers = append([]*ssa.Defer{}, in.st.defers...)
			} else {
				fx.condDefers = true
			}
		}
		res.pc = c.Or(cond, res.pc)
	}
	fx.mergeRngs(ins, res)
	return res
}

// mergeRngs: abstract byte strings across a join.  For a remembered byte string over the array of a known
// object whose array differs between the incoming states, the byte string over the merged array is the
// corresponding choice of the incoming ones.
func (fx *FnExec) mergeRngs(ins []incoming, res *State) {
	if len(fx.rngs) == 0 || fx.noAssume {
		return
	}
	c := fx.c
	key := "M|uint8|"
	mf, ok := res.heap[key]
	if !ok {
		return
	}
	for _, in := range ins {
		if _, ok := in.st.heap[key]; !ok {
			return
		}
	}
	n := len(fx.rngs)
	added := 0
	done := map[[3]int]bool{}
	for i := 0; i < n && added < 48; i++ {
		r := fx.rngs[i]
		if r.ref == nil {
			continue
		}
		k3 := [3]int{r.ref.ID, r.off.ID, r.ln.ID}
		if done[k3] {
			continue
		}
		// is this record about the array of r.ref in one of the incoming states?
		hit := false
		var arrs []*Term
		differ := false
		for _, in := range ins {
			a := c.Select(in.st.heap[key], r.ref)
			arrs = append(arrs, a)
			if a == r.arr {
				hit = true
			}
			if a != arrs[0] {
				differ = true
			}
		}
		if !hit || !differ {
			continue
		}
		done[k3] = true
		m := c.Select(mf, r.ref)
		// ins are merged as ite(cond_0, in_0, ite(cond_1, in_1, ... in_last))
		val := c.App("rng", UnintSort("Bytes"), arrs[len(arrs)-1], r.off, r.ln)
		for j := len(ins) - 2; j >= 0; j-- {
			val = c.Ite(ins[j].cond, c.App("rng", UnintSort("Bytes"), arrs[j], r.off, r.ln), val)
		}
		mt := c.App("rng", UnintSort("Bytes"), m, r.off, r.ln)
		fx.assumeGlobal(c.Eq(mt, val))
		if !fx.rngSeen[mt] {
			fx.rngSeen[mt] = true
			fx.rngs = append(fx.rngs, rngRec{arr: m, off: r.off, ln: r.ln, ref: r.ref})
			added++
		}
	}
}

type pendingFam struct {
	name  string
	t     *Term
	epoch int
}
