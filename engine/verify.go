package main

// Region execution (loop cutting / unrolling), contract application,
// inlining, and the per-function verification driver.

import (
	"fmt"
	"go/ast"
	"go/token"
	"go/types"
	"sort"
	"strconv"
	"strings"

	"golang.org/x/tools/go/ssa"
)

// ---- region execution

type region struct {
	blocks map[*ssa.BasicBlock]bool // nil: whole function
	entry  *ssa.BasicBlock
	onExit func(to *ssa.BasicBlock, in incoming)
	onBack func(in incoming) // back edge to entry (only for loop regions)
}

func (fx *FnExec) runBody(fr *frame, entry *State) {
	fn := fr.fn
	fr.loops = findLoops(fn)
	for _, l := range fr.loops {
		fx.analyseLoop(fr, l)
	}
	fr.order = topoOrder(fn)
	fx.execRegion(fr, &region{entry: fn.Blocks[0]}, entry)
}

func (fr *frame) loopAt(b *ssa.BasicBlock) *loopInfo {
	for _, l := range fr.loops {
		if l.head == b {
			return l
		}
	}
	return nil
}

func (fx *FnExec) loopContract(fr *frame, li *loopInfo) *LoopContract {
	if fr.contract == nil {
		return nil
	}
	return fr.contract.Loops[li.ordinal]
}

func (fx *FnExec) execRegion(fr *frame, rg *region, entry *State) {
	ins := map[*ssa.BasicBlock][]incoming{}
	skip := map[*ssa.BasicBlock]bool{}
	for _, b := range fr.order {
		if rg.blocks != nil && !rg.blocks[b] {
			continue
		}
		if skip[b] {
			continue
		}
		var st *State
		if b == rg.entry {
			st = entry
		} else {
			in := ins[b]
			if len(in) == 0 {
				continue
			}
			st = fx.mergeStates(in)
		}
		if st.pc.IsFalse() {
			continue
		}
		deliver := func(from, to *ssa.BasicBlock, s *State, cond *Term) {
			fr.edgePC[[2]int{from.Index, to.Index}] = cond
			if cond.IsFalse() {
				return
			}
			in := incoming{st: s, cond: cond}
			if to == rg.entry && rg.onBack != nil && isBackEdge(from, to) {
				rg.onBack(in)
				return
			}
			if rg.blocks != nil && !rg.blocks[to] {
				rg.onExit(to, in)
				return
			}
			if isBackEdge(from, to) {
				li := fr.loopAt(to)
				s2 := s.clone()
				s2.pc = cond
				fx.backEdge(fr, li, s2)
				return
			}
			ins[to] = append(ins[to], in)
		}
		if li := fr.loopAt(b); li != nil && b != rg.entry || (li != nil && rg.blocks == nil) {
			lc := fx.loopContract(fr, li)
			if lc != nil && lc.Unroll != 0 {
				// unrolled loop: executed as its own region, its blocks are skipped here
				for lb := range li.body {
					skip[lb] = true
				}
				fx.unrollLoop(fr, li, lc, st, func(to *ssa.BasicBlock, in incoming) {
					if rg.blocks != nil && !rg.blocks[to] {
						rg.onExit(to, in)
						return
					}
					if to == rg.entry && rg.onBack != nil {
						rg.onBack(in)
						return
					}
					ins[to] = append(ins[to], in)
				})
				continue
			}
			fx.enterLoop(fr, li, lc, st)
		}
		fx.execBlock(fr, b, st, deliver)
	}
}

func (fx *FnExec) unrollLoop(fr *frame, li *loopInfo, lc *LoopContract, st *State, exit func(to *ssa.BasicBlock, in incoming)) {
	// registers defined inside and used outside the loop would be ambiguous
	for b := range li.body {
		for _, ins := range b.Instrs {
			if v, ok := ins.(ssa.Value); ok {
				if refs := v.Referrers(); refs != nil {
					for _, r := range *refs {
						if _, isDbg := r.(*ssa.DebugRef); isDbg {
							continue
						}
						if !li.body[r.Block()] {
							if _, isAlloc := v.(*ssa.Alloc); isAlloc {
								continue
							}
							fx.oos("unrolled loop %d defines %s used after the loop", li.ordinal, v.Name())
						}
					}
				}
			}
		}
	}
	cur := st
	limit := lc.Unroll
	for iter := 0; ; iter++ {
		if cur == nil || cur.pc.IsFalse() {
			return
		}
		if limit > 0 && iter == limit {
			// bounded stand-in: iterations beyond the bound are not explored
			fx.bounded = append(fx.bounded, fmt.Sprintf("%s loop %d unrolled %d times (unwinding assertion off)", fr.prefix, li.ordinal, limit))
			return
		}
		if limit < 0 && iter > 4096 {
			fx.oos("loop %d does not unroll to a constant bound", li.ordinal)
		}
		var next []incoming
		rg := &region{blocks: li.body, entry: li.head, onExit: exit, onBack: func(in incoming) { next = append(next, in) }}
		fx.execRegion(fr, rg, cur)
		if len(next) == 0 {
			return
		}
		cur = fx.mergeStates(next)
	}
}

func (fx *FnExec) execBlock(fr *frame, b *ssa.BasicBlock, st *State, deliver func(from, to *ssa.BasicBlock, s *State, cond *Term)) {
	c := fx.c
	for _, instr := range b.Instrs {
		if st.pc.IsFalse() {
			return
		}
		switch x := instr.(type) {
		case *ssa.If:
			cond := fx.val(fr, x.Cond).(*Term)
			deliver(b, b.Succs[0], st, c.And(st.pc, cond))
			deliver(b, b.Succs[1], st, c.And(st.pc, c.Not(cond)))
			return
		case *ssa.Jump:
			deliver(b, b.Succs[0], st, st.pc)
			return
		case *ssa.Return:
			var vals []Val
			for i, r := range x.Results {
				vals = append(vals, fx.coerce(fx.val(fr, r), fr.fn.Signature.Results().At(i).Type()))
			}
			fr.results = append(fr.results, retInfo{st: st, vals: vals, pos: x.Pos()})
			return
		case *ssa.Panic:
			fx.oblige(fr, st, "panic", x.Pos(), c.False(), "explicit panic is unreachable")
			return
		default:
			fx.execInstr(fr, st, instr)
		}
	}
}

// ---- loops by invariant

func (fx *FnExec) loopScopePos(li *loopInfo) token.Pos {
	switch n := li.node.(type) {
	case *ast.ForStmt:
		return n.Body.Lbrace + 1
	case *ast.RangeStmt:
		return n.Body.Lbrace + 1
	}
	return token.NoPos
}

func (fx *FnExec) envAt(fr *frame, st *State, pos token.Pos) *CEnv {
	e := &CEnv{fx: fx, fr: fr, st: st, old: fr.entry, vars: map[string]CVal{}, scope: pos}
	for _, l := range fr.loops {
		if fx.loopScopePos(l) == pos {
			e.li = l
		}
	}
	for k, v := range fr.cvars {
		e.vars[k] = v
	}
	return e
}

func (fx *FnExec) evalClause(fr *frame, env *CEnv, cl Clause, what string) (t *Term) {
	defer func() {
		if r := recover(); r != nil {
			if ce, ok := r.(cerr); ok {
				panic(oosError{fmt.Sprintf("contract-target-missing: %s %q (%s): %s", what, cl.Src, cl.Line, ce.msg)})
			}
			panic(r)
		}
	}()
	return env.Bool(cl.Expr)
}

func (fx *FnExec) enterLoop(fr *frame, li *loopInfo, lc *LoopContract, st *State) {
	c := fx.c
	pos := fx.loopScopePos(li)
	prefix := fmt.Sprintf("loop%d", li.ordinal)
	if lc != nil {
		env := fx.envAt(fr, st, pos)
		for k, inv := range lc.Invariants {
			g := fx.evalClause(fr, env, inv, "invariant")
			fx.obligeNamed(fr, st, fmt.Sprintf("%s/init/%d", prefix, k+1), "inv-init", li.head.Instrs[0].Pos(), g, "loop invariant holds on entry: "+inv.Src)
		}
	}
	// havoc what the loop may change
	var modAllocs []*ssa.Alloc
	for a := range li.modAlloc {
		modAllocs = append(modAllocs, a)
	}
	// (in source order: the generated query must not depend on map iteration order)
	sort.Slice(modAllocs, func(i, j int) bool {
		if modAllocs[i].Pos() != modAllocs[j].Pos() {
			return modAllocs[i].Pos() < modAllocs[j].Pos()
		}
		return modAllocs[i].Name() < modAllocs[j].Name()
	})
	for _, a := range modAllocs {
		t := a.Type().(*types.Pointer).Elem()
		st.locals[a] = fx.freshVal(t, "loop."+a.Comment)
	}
	// call-trace ghosts of callees called in the loop: unknown after any number of iterations,
	// except that "called" and the count only grow
	if len(li.modTrace) > 0 {
		var tk []string
		for k := range li.modTrace {
			tk = append(tk, k)
		}
		sort.Strings(tk)
		for _, k := range tk {
			pre := "call|" + k + "|"
			var gk []string
			for g := range st.ghost {
				if strings.HasPrefix(g, pre) {
					gk = append(gk, g)
				}
			}
			sort.Strings(gk)
			before, _ := st.ghost[pre+"called"].(*Term)
			cntBefore, _ := st.ghost[pre+"count"].(*Term)
			for _, g := range gk {
				delete(st.ghost, g)
			}
			called := c.Fresh("loop.called", BoolSort)
			if before != nil {
				fx.assumeGlobal(c.Implies(before, called))
			}
			st.ghost[pre+"called"] = called
			cnt := c.Fresh("loop.callcount", BV(64))
			if cntBefore == nil {
				cntBefore = fx.bv64(0)
			}
			fx.assumeGlobal(c.And(c.BVCmp("bvsle", cntBefore, cnt), c.BVCmp("bvsle", cnt, c.BVConst(mask(maxLenBits), 64))))
			fx.assumeGlobal(c.Implies(c.BVCmp("bvslt", fx.bv64(0), cnt), called))
			st.ghost[pre+"count"] = cnt
			// results / arguments / sequence number of the last call: unknown (left unset: read as unconstrained)
		}
		if seq, ok := st.ghost["callseq"].(*Term); ok {
			ns := c.Fresh("loop.callseq", BV(64))
			// the running call number only grows, and stays far from wrapping (fewer than 2^45 traced calls in one
			// execution - the same bound as for lengths)
			fx.assumeGlobal(c.And(c.BVCmp("bvsle", seq, ns), c.BVCmp("bvsle", ns, c.BVConst(mask(maxLenBits), 64))))
			st.ghost["callseq"] = ns
		}
	}
	var gnames []string
	for g := range li.modGhost {
		gnames = append(gnames, g)
	}
	sort.Strings(gnames)
	for _, g := range gnames {
		if cur, ok := st.ghost[g].(*Term); ok {
			st.ghost[g] = fx.c.Fresh("loop.ghost."+g, cur.Sort)
		}
	}
	{
		// objects declared outside the loop and written inside it: forget exactly their cells
		var objs []*ssa.Alloc
		for a := range li.modObj {
			objs = append(objs, a)
		}
		sort.Slice(objs, func(i, j int) bool { return objs[i].Pos() < objs[j].Pos() })
		for _, a := range objs {
			if pv, ok := fr.regs[a].(PtrV); ok && pv.Kind == PObj {
				for _, f := range fx.havocObj(st, pv.Elem, pv.Ref) {
					f()
				}
			}
		}
	}
	if li.modFam["*"] {
		fx.havocAll(st)
	} else if len(li.modFam) > 0 {
		// materialise known families under the current epoch, then forget the modified ones
		keys := make([]string, 0, len(fx.famSort))
		for key := range fx.famSort {
			keys = append(keys, key)
		}
		sort.Strings(keys)
		for _, key := range keys {
			if strings.HasPrefix(key, "G|") {
				continue
			}
			fx.family(st, key, fx.famSort[key])
		}
		st.epoch = fx.nextEpoch()
		for _, key := range keys {
			for p := range li.modFam {
				if strings.HasPrefix(key, p) {
					delete(st.heap, key)
				}
			}
		}
	}
	// automatic invariant of range-over-slice loops: the hidden counter starts at -1 and only
	// moves up by one while below a length (< 2^46), so it never drops below -1
	for a := range li.modAlloc {
		if a.Comment == "rangeindex" {
			if t, ok := st.locals[a].(*Term); ok && t.Sort == BV(64) {
				st.pc = c.And(st.pc, c.BVCmp("bvsle", c.BVInt(-1, 64), t), c.BVCmp("bvslt", t, c.BVConst(mask(maxLenBits), 64)))
			}
		}
	}
	li.headState = nil
	if lc != nil {
		env := fx.envAt(fr, st, pos)
		for _, inv := range lc.Invariants {
			g := fx.evalClause(fr, env, inv, "invariant")
			st.pc = c.And(st.pc, g)
		}
		if lc.Decreases != nil {
			v := env.Eval(lc.Decreases.Expr)
			li.variant = v
		}
	} else {
		fx.unannotatedLoops++
	}
}

func (fx *FnExec) backEdge(fr *frame, li *loopInfo, st *State) {
	c := fx.c
	lc := fx.loopContract(fr, li)
	if lc == nil {
		return
	}
	pos := fx.loopScopePos(li)
	env := fx.envAt(fr, st, pos)
	prefix := fmt.Sprintf("loop%d", li.ordinal)
	li.backEdges++
	suffix := ""
	if li.backEdges > 1 {
		suffix = fmt.Sprintf("b%d", li.backEdges)
	}
	for k, inv := range lc.Invariants {
		g := fx.evalClause(fr, env, inv, "invariant")
		s2 := st.clone()
		fx.obligeNamed(fr, s2, fmt.Sprintf("%s/preserve%s/%d", prefix, suffix, k+1), "inv-preserve", li.head.Instrs[0].Pos(), g, "loop invariant preserved: "+inv.Src)
	}
	if lc.Decreases != nil && li.variant.V != nil {
		nv := env.Eval(lc.Decreases.Expr)
		a, b := env.unify(nv, li.variant)
		ta, tb := a.V.(*Term), b.V.(*Term)
		var g *Term
		if a.Signed {
			g = c.And(c.BVCmp("bvslt", ta, tb), c.BVCmp("bvsle", c.BVInt(0, ta.Sort.Width), tb))
		} else {
			g = c.BVCmp("bvult", ta, tb)
		}
		s2 := st.clone()
		fx.obligeNamed(fr, s2, fmt.Sprintf("%s/decreases%s", prefix, suffix), "decreases", li.head.Instrs[0].Pos(), g, "loop variant decreases: "+lc.Decreases.Src)
	}
}

func (fx *FnExec) obligeNamed(fr *frame, st *State, name, kind string, pos token.Pos, goal *Term, desc string) {
	o := &Obligation{Name: fr.prefix + "/" + name, Kind: kind, Pos: fx.posOf(fr, pos), Desc: desc, PC: st.pc, Goal: goal,
		Assume: fx.assumes[:len(fx.assumes):len(fx.assumes)], Values: fx.inputs}
	fx.obls = append(fx.obls, o)
	st.pc = fx.c.And(st.pc, goal)
}

// ---- contract application at call sites

func (fx *FnExec) bindContractVars(fc *FuncContract, sig *types.Signature, recv Val, args []Val) map[string]CVal {
	vars := map[string]CVal{}
	if recv != nil && fc.Recv != "" {
		var rt types.Type
		if sig.Recv() != nil {
			rt = sig.Recv().Type()
		}
		cv := CVal{V: recv, T: rt}
		if p, ok := recv.(PtrV); ok && rt == nil {
			cv.T = types.NewPointer(p.Elem)
		}
		vars[fc.Recv] = cv
	}
	for i, name := range fc.Params {
		if i >= len(args) {
			break
		}
		var pt types.Type
		if i < sig.Params().Len() {
			pt = sig.Params().At(i).Type()
		}
		cv := CVal{V: args[i], T: pt}
		if pt != nil {
			if _, s, ok := intWidth(pt); ok {
				cv.Signed = s
			}
		}
		vars[name] = cv
	}
	return vars
}

func (fx *FnExec) bindResults(fc *FuncContract, sig *types.Signature, res Val, vars map[string]CVal) {
	n := sig.Results().Len()
	get := func(i int) Val {
		if n == 1 {
			return res
		}
		return res.(TupleV)[i]
	}
	for i := 0; i < n; i++ {
		t := sig.Results().At(i).Type()
		cv := CVal{V: get(i), T: t}
		if _, s, ok := intWidth(t); ok {
			cv.Signed = s
		}
		if i < len(fc.Results) {
			vars[fc.Results[i]] = cv
		}
		vars[fmt.Sprintf("result%d", i)] = cv
		if i == 0 {
			vars["result"] = cv
		}
	}
}

func (fx *FnExec) applyContract(fr *frame, st *State, fc *FuncContract, callee *ssa.Function, recv Val, args []Val, sig *types.Signature, rt types.Type, pos token.Pos, key string) Val {
	c := fx.c
	fx.usedContracts[key] = fc
	vars := fx.bindContractVars(fc, sig, recv, args)
	mkEnv := func(s, old *State) *CEnv {
		e := &CEnv{fx: fx, st: s, old: old, vars: map[string]CVal{}}
		if callee != nil && callee.Pkg != nil {
			e.fr = &frame{fn: callee}
		}
		for k, v := range vars {
			e.vars[k] = v
		}
		return e
	}
	pre := mkEnv(st, nil)
	for _, l := range fc.Lets {
		vars[l.Name] = pre.Eval(l.Expr)
		pre.vars[l.Name] = vars[l.Name]
	}
	logical := map[string]bool{}
	for _, lg := range fc.Logical {
		logical[lg.Name] = true
	}
	for k, rq := range fc.Requires {
		if len(logical) > 0 && mentionsIdent(rq.Expr, logical) {
			// the clause speaks about a ghost (logical) variable of the callee: a representation
			// invariant "there is such a ghost value"; it cannot be checked at the call site and is assumed
			fx.note("precondition of " + key + " over its logical variables is assumed at call sites (representation invariant): " + rq.Src)
			continue
		}
		g := fx.evalCallClause(pre, rq, "requires of "+key)
		fx.obligeNamed(fr, st, fmt.Sprintf("call%d:%s/requires/%d", fx.callSeq, shortKey(key), k+1), "requires", pos, g, "precondition of "+key+": "+rq.Src)
	}
	// fresh(x) in the callee's postconditions: the allocations are made before the modified locations are forgotten
	// and before the result values are introduced, so that "a value appearing now is no younger than now" stays
	// consistent with them (x may be a result or a location the callee modifies)
	fx.pendingFresh = nil
	for _, en := range append(append([]Clause{}, fc.Ensures...), fc.Proves...) {
		for k := countCalls(en.Expr, "fresh"); k > 0; k-- {
			fx.pendingFresh = append(fx.pendingFresh, fx.newRef("fresh"))
		}
	}
	old := st.clone()
	if !fc.Pure {
		if fx.pureMode && !fc.ModAll && len(fc.Modifies) > 0 && fx.modifiesOnlyFresh(fc, st, mkEnv) {
			// a pure caller may call a function whose whole declared footprint lies in memory the
			// caller allocated itself
		} else {
			fx.frameWrite(fr, st, nil, pos, "call "+key+" (not pure)")
		}
		if recv != nil {
			fx.escape(fr, st, recv)
		}
		for _, a := range args {
			fx.escape(fr, st, a)
		}
		if fc.ModAll || len(fc.Modifies) == 0 {
			fx.havocAll(st)
		} else {
			env := mkEnv(st, nil)
			// evaluate all locations in the pre-state, then havoc
			var locs []func()
			for _, m := range fc.Modifies {
				locs = append(locs, fx.havocLoc(env, old, st, m.Expr)...)
			}
			for _, f := range locs {
				f()
			}
		}
	}
	if !fc.Pure {
		// an interface-typed argument whose dynamic type is known here to be a pointer to a modelled object (a
		// bytes.Buffer handed over as io.Writer, ...): a callee that is not pure may call methods on it, and its
		// contract - written against the interface - cannot name the object's fields.  The object is forgotten.
		forget := func(v Val, static types.Type) {
			// only for parameters of an interface type WITH methods (io.Writer, hash.Hash, ...): through `any` a callee
			// can reach the object only by a type assertion or reflection, which its contract has to spell out
			if static != nil {
				if it, isI := under(static).(*types.Interface); !isI || it.NumMethods() == 0 {
					return
				}
			}
			iv, ok := v.(IfaceV)
			if !ok || iv.Tag == nil || iv.Tag.Op != "bv" || !iv.Tag.Val.IsInt64() {
				return
			}
			ct := fx.eng.typeOfTag(int(iv.Tag.Val.Int64()))
			if ct == nil {
				return
			}
			if pt, isP := under(ct).(*types.Pointer); isP && isObjT(pt.Elem()) {
				for _, f := range fx.havocObj(st, pt.Elem(), iv.Ref) {
					f()
				}
				fx.note("an object passed behind an interface to a non-pure callee is forgotten at the call (the callee may call its methods)")
			}
		}
		if recv != nil {
			forget(recv, nil)
		}
		for i, a := range args {
			var pt types.Type
			if sig != nil && i < sig.Params().Len() {
				pt = sig.Params().At(i).Type()
			}
			forget(a, pt)
		}
	}
	var res Val
	hasRes := rt != nil
	if tt, ok := rt.(*types.Tuple); ok && tt.Len() == 0 {
		hasRes = false
	}
	if hasRes {
		res = fx.freshVal(rt, "ret."+shortKey(key))
		fx.markNilable(res)
		fx.bindResults(fc, sig, res, vars)
	}
	post := mkEnv(st, old)
	post.assumeFresh = true
	for _, en := range append(append([]Clause{}, fc.Ensures...), fc.Proves...) {
		if len(logical) > 0 && mentionsIdent(en.Expr, logical) {
			continue
		}
		if fx.eng.mentionsCallTrace(en.Expr) {
			// the clause speaks about calls made INSIDE the callee; it is meaningless in the caller's trace
			continue
		}
		if len(fc.Afters) > 0 {
			caps := map[string]bool{}
			for _, a := range fc.Afters {
				caps[a.Name] = true
			}
			if mentionsIdent(en.Expr, caps) {
				continue // values captured inside the callee's body
			}
		}
		g := fx.evalCallClause(post, en, "ensures of "+key)
		fx.assume(st, g)
	}
	for _, en := range fc.Defines {
		g := fx.evalCallClause(post, en, "defines of "+key)
		fx.assume(st, g)
		fx.note("definitional clause of " + key + " (introduces a specification notion, not checked against the body): " + en.Src)
	}
	if fc.NoReturn {
		st.pc = c.False()
	}
	if fc.Assumed {
		fx.note("assumed contract: " + key + " (" + strings.TrimSpace(fc.Trusted) + ")")
	}
	return res
}

func shortKey(k string) string {
	if i := strings.LastIndexByte(k, '.'); i >= 0 {
		return k[i+1:]
	}
	return k
}

func (fx *FnExec) evalCallClause(env *CEnv, cl Clause, what string) (t *Term) {
	defer func() {
		if r := recover(); r != nil {
			if ce, ok := r.(cerr); ok {
				panic(oosError{fmt.Sprintf("contract error: %s %q (%s): %s", what, cl.Src, cl.Line, ce.msg)})
			}
			panic(r)
		}
	}()
	return env.Bool(cl.Expr)
}

// havocLoc returns the updates that forget the location(s) denoted by x.
func (fx *FnExec) havocLoc(env *CEnv, old, st *State, x *CExpr) []func() {
	c := fx.c
	// forms: p.f   *p   p.*   s[..] / s[i:j]   ghost   p.$ghost
	switch x.Op {
	case "call":
		if x.Name == "opaque" {
			// state private to the object behind an interface / handle: nothing of the modelled heap changes
			return nil
		}
		if x.Name == "families" {
			// families("F|pkg.Type|field|", "M|elemtype|") : every cell of these heap families, on all objects
			var prefixes []string
			for _, a := range x.Args {
				p, err := strconv.Unquote(a.Name)
				if err != nil {
					env.fail("modifies families(...): string literals expected")
				}
				prefixes = append(prefixes, p)
			}
			return []func(){func() {
				keys := make([]string, 0, len(fx.famSort))
				for key := range fx.famSort {
					keys = append(keys, key)
				}
				sort.Strings(keys)
				for _, key := range keys {
					if !strings.HasPrefix(key, "G|") {
						fx.family(st, key, fx.famSort[key])
					}
				}
				st.epoch = fx.nextEpoch()
				for _, key := range keys {
					for _, p := range prefixes {
						if strings.HasPrefix(key, p) {
							delete(st.heap, key)
						}
					}
				}
			}}
		}
		if x.Name == "mapof" && len(x.Args) == 1 {
			// the entries of one Go map
			mv := env.Eval(x.Args[0])
			mt, ok := mapTypeOf(mv.T)
			mref, ok2 := mv.V.(*Term)
			if !ok || !ok2 {
				env.fail("modifies mapof(%s): Go map expected", exprString(x.Args[0]))
			}
			if !fx.mapModelled(mt) {
				return nil
			}
			return []func(){func() {
				dk, dom := fx.mapDom(st, mt)
				fx.setFamily(st, dk, c.Store(dom, mref, c.Fresh("mod.mapdom", dom.Sort.Elem)))
				for _, lf := range leavesOf(mt.Elem()) {
					vk, vf := fx.mapValFam(st, mt, lf)
					fx.setFamily(st, vk, c.Store(vf, mref, c.Fresh("mod.mapval", vf.Sort.Elem)))
				}
			}}
		}
	case "paren":
		return fx.havocLoc(env, old, st, x.Args[0])
	case "ident":
		if _, ok := st.ghost[x.Name]; ok {
			return []func(){func() {
				gt := fx.eng.ghostTypes[x.Name]
				s, _ := env.sortOf(gt)
				st.ghost[x.Name] = c.Fresh("ghost."+x.Name, s)
			}}
		}
		v := env.Eval(x)
		return fx.havocVal(st, v)
	case "un":
		if x.Name == "*" {
			v := env.Eval(x.Args[0])
			return fx.havocVal(st, v)
		}
	case "field":
		if x.Name == "*" {
			return fx.havocVal(st, env.Eval(x.Args[0]))
		}
		base := env.Eval(x.Args[0])
		p, ok := base.V.(PtrV)
		if !ok || p.Kind != PObj {
			env.fail("modifies %s: base is not an object pointer", exprString(x))
		}
		if strings.HasPrefix(x.Name, "gh_") {
			gname := "$" + strings.TrimPrefix(x.Name, "gh_")
			key := "GF|" + typeKey(p.Elem) + "|" + gname
			gt, ok := fx.eng.ghostTypes[typeKey(p.Elem)+"."+gname]
			if !ok {
				env.fail("undeclared ghost field %s", x.Name)
			}
			s, _ := env.sortOf(gt)
			return []func(){func() {
				fam := fx.family(st, key, ArrSort(RefSort, s))
				st.heap[key] = c.Store(fam, p.Ref, c.Fresh("ghostfield", s))
			}}
		}
		stt, ok := under(p.Elem).(*types.Struct)
		if !ok {
			env.fail("modifies %s: not a struct", exprString(x))
		}
		for i := 0; i < stt.NumFields(); i++ {
			if stt.Field(i).Name() == x.Name {
				ft := stt.Field(i).Type()
				if isObjT(ft) {
					return fx.havocObj(st, ft, fx.subRef(p.Elem, i, p.Ref))
				}
				idx := i
				return []func(){func() {
					fx.storeField(st, p.Elem, idx, p.Ref, fx.freshVal(ft, "mod."+x.Name))
				}}
			}
		}
		env.fail("modifies %s: no such field", exprString(x))
	case "index":
		base := env.Eval(x.Args[0])
		if sv, ok := base.V.(SliceV); ok {
			et := under(base.T).(*types.Slice).Elem()
			it := env.indexTerm(env.Eval(x.Args[1]))
			return []func(){func() {
				fx.storeElem(st, et, sv.Ref, c.BVBin("bvadd", sv.Off, it), fx.freshVal(et, "mod.elem"))
			}}
		}
	case "slice":
		base := env.Eval(x.Args[0])
		switch bv := base.V.(type) {
		case SliceV:
			et := under(base.T).(*types.Slice).Elem()
			if x.Args[1] == nil && x.Args[2] == nil {
				// s[:] : the elements reachable through s - its window of the backing array up to its
				// capacity (append-style callees write past len) - and nothing before its offset
				return []func(){func() { fx.havocRange(st, et, bv.Ref, bv.Off, bv.Cap) }}
			}
			sub := env.sliceExpr(x).V.(SliceV)
			return []func(){func() { fx.havocRange(st, et, sub.Ref, sub.Off, sub.Len) }}
		case PtrV:
			if at, ok := under(bv.Elem).(*types.Array); ok {
				return []func(){func() { fx.havocBacking(st, at.Elem(), bv.Ref) }}
			}
		}
	}
	env.fail("unsupported modifies target %s", exprString(x))
	return nil
}

func (fx *FnExec) havocVal(st *State, v CVal) []func() {
	switch p := v.V.(type) {
	case PtrV:
		switch p.Kind {
		case PObj:
			return fx.havocObj(st, p.Elem, p.Ref)
		case PBox:
			return []func(){func() { fx.storeBox(st, p.Elem, p.Ref, fx.freshVal(p.Elem, "mod.box")) }}
		}
	case SliceV:
		et := under(v.T).(*types.Slice).Elem()
		return []func(){func() { fx.havocBacking(st, et, p.Ref) }}
	}
	fx.oos("unsupported modifies target value %T", v.V)
	return nil
}

func (fx *FnExec) havocObj(st *State, t types.Type, ref *Term) []func() {
	var out []func()
	switch u := under(t).(type) {
	case *types.Struct:
		for i := 0; i < u.NumFields(); i++ {
			ft := u.Field(i).Type()
			if isObjT(ft) {
				out = append(out, fx.havocObj(st, ft, fx.subRef(t, i, ref))...)
				continue
			}
			idx := i
			out = append(out, func() { fx.storeField(st, t, idx, ref, fx.freshVal(ft, "mod."+u.Field(idx).Name())) })
		}
	case *types.Array:
		out = append(out, func() { fx.havocBacking(st, u.Elem(), ref) })
	}
	return out
}

// havocRange forgets elements [off, off+n) of a backing array.
func (fx *FnExec) havocRange(st *State, et types.Type, ref, off, n *Term) {
	c := fx.c
	if isElemObj(et) || singleSort(et) == nil {
		fx.havocBacking(st, et, ref)
		return
	}
	old := fx.elemArray(st, et, ref)
	na := c.Fresh("modrange", old.Sort)
	k := c.BoundVar("k", BV(64))
	in := c.BVCmp("bvult", c.BVBin("bvsub", k, off), n)
	fx.assumeGlobal(c.Forall([]*Term{k}, c.Implies(c.Not(in), c.Eq(c.Select(na, k), c.Select(old, k)))))
	fx.setElemArray(st, et, ref, na)
	if na.Sort == byteArr && na.Op == "const" {
		if fx.arrOrigins == nil {
			fx.arrOrigins = map[*Term]arrOrigin{}
		}
		fx.arrOrigins[na] = arrOrigin{old: old, doff: off, n: n}
	}
	fx.curPC = st.pc
	fx.arrayUpdated(old, na, off, n)
}

// ---- inlining

func (fx *FnExec) inlineCall(fr *frame, st *State, callee *ssa.Function, args []Val, rt types.Type, pos token.Pos) Val {
	key := funcKey(callee)
	fx.inlined[key] = true
	fr2 := &frame{fn: callee, regs: map[ssa.Value]Val{}, edgePC: map[[2]int]*Term{}, depth: fr.depth + 1,
		prefix: fmt.Sprintf("%s/inl%d:%s", fr.prefix, fx.callSeq, shortKey(key)), contract: fx.eng.db.Funcs[key]}
	if strings.Contains(callee.Synthetic, "wrapper") || strings.Contains(callee.Synthetic, "bound") || strings.Contains(callee.Synthetic, "thunk") {
		fr2.prefix = fr.prefix
	}
	for i, p := range callee.Params {
		if i < len(args) {
			fr2.regs[p] = args[i]
		}
	}
	entry := st.clone()
	entry.defers = nil
	fr2.entry = entry.clone()
	fr2.cvars = map[string]CVal{}
	for i, p := range callee.Params {
		if i < len(args) {
			cv := CVal{V: args[i], T: p.Type()}
			if _, s, ok := intWidth(p.Type()); ok {
				cv.Signed = s
			}
			fr2.cvars[p.Name()] = cv
		}
	}
	fx.runBody(fr2, entry)
	if len(fr2.results) == 0 {
		st.pc = fx.c.False()
		return fx.zeroOrFresh(rt)
	}
	var ins []incoming
	for _, r := range fr2.results {
		ins = append(ins, incoming{st: r.st, cond: r.st.pc})
	}
	merged := fx.mergeStates(ins)
	merged.defers = st.defers
	// merge result values
	var res Val
	n := callee.Signature.Results().Len()
	if n > 0 {
		vals := make([]Val, n)
		for i := 0; i < n; i++ {
			v := fr2.results[len(fr2.results)-1].vals[i]
			for k := len(fr2.results) - 2; k >= 0; k-- {
				v = fx.mergeVal(fr2.results[k].st.pc, fr2.results[k].vals[i], v)
			}
			vals[i] = v
		}
		if n == 1 {
			res = vals[0]
		} else {
			res = TupleV(vals)
		}
	}
	*st = *merged
	return res
}

// ---- top-level verification of one function

type FuncReport struct {
	Key         string
	Obligations []*Obligation
	OutOfSubset string
	Notes       []string
	Dropped     []string
	Bounded     []string
	Unannotated int
	Inlined     []string
	Used        []string // contracts relied upon
	MapWrites   []mapWrite
	HasContract bool
	fx          *FnExec
}

func (eng *Engine) newExec(opts ExecOpts) *FnExec {
	return &FnExec{eng: eng, c: NewCtx(), counters: map[string]int{}, notes: map[string]bool{}, dropped: map[string]bool{},
		famSort: map[string]*Sort{}, nilable: map[*Term]bool{}, opts: opts, private: map[*Term]privInfo{},
		closures: map[*Term]*ssa.MakeClosure{}, deferArgs: map[*ssa.Defer][]Val{}, deferFn: map[*ssa.Defer]Val{},
		usedContracts: map[string]*FuncContract{}, inlined: map[string]bool{}, strDecl: map[string]bool{}, specDone: map[string]bool{}, rangeMaps: map[*Term]rangeMap{}}
}

// VerifyFunc generates the obligations of fn against its contract (if any)
// plus the safety obligations of its body.
func (eng *Engine) VerifyFunc(fn *ssa.Function, opts ExecOpts) (rep *FuncReport) {
	key := funcKey(fn)
	fc := eng.db.Funcs[key]
	if fc != nil && fc.NilChecks {
		opts.NilChecks = true
	}
	if fc != nil && fc.AllocBnd > 0 {
		opts.AllocBound = fc.AllocBnd
	}
	fx := eng.newExec(opts)
	fx.pureMode = fc != nil && fc.Pure && !fc.Assumed
	fx.atomicLocks = fc != nil && fc.Atomic
	rep = &FuncReport{Key: key, HasContract: fc != nil, fx: fx}
	defer func() {
		if r := recover(); r != nil {
			if oe, ok := r.(oosError); ok {
				rep.OutOfSubset = oe.msg
			} else if ce, ok := r.(cerr); ok {
				rep.OutOfSubset = "contract-target-missing: " + ce.msg
			} else {
				panic(r)
			}
		}
		rep.Obligations = fx.obls
		for n := range fx.notes {
			rep.Notes = append(rep.Notes, n)
		}
		sort.Strings(rep.Notes)
		for n := range fx.dropped {
			rep.Dropped = append(rep.Dropped, n)
		}
		sort.Strings(rep.Dropped)
		rep.Bounded = fx.bounded
		rep.Unannotated = fx.unannotatedLoops
		for n := range fx.inlined {
			rep.Inlined = append(rep.Inlined, n)
		}
		sort.Strings(rep.Inlined)
		for n := range fx.usedContracts {
			rep.Used = append(rep.Used, n)
		}
		sort.Strings(rep.Used)
		rep.MapWrites = fx.mapWrites
	}()
	if len(fn.Blocks) == 0 {
		fx.oos("function %s has no body (external or assembly)", key)
	}
	c := fx.c
	st := &State{pc: c.True(), locals: map[*ssa.Alloc]Val{}, heap: map[string]*Term{}, ghost: map[string]Val{}, held: map[string]*Term{}}
	fr := &frame{fn: fn, regs: map[ssa.Value]Val{}, edgePC: map[[2]int]*Term{}, prefix: key, contract: fc, cvars: map[string]CVal{}}
	// ghost globals
	{
		env0 := &CEnv{fx: fx, fr: fr, st: st, vars: map[string]CVal{}}
		var gnames0 []string
		for name := range eng.ghostTypes {
			gnames0 = append(gnames0, name)
		}
		sort.Strings(gnames0)
		for _, name := range gnames0 {
			if strings.Contains(name, ".$") {
				continue
			}
			s, _ := env0.sortOf(eng.ghostTypes[name])
			st.ghost[name] = c.Const("ghost0."+name, s)
		}
	}
	// parameters
	var recv Val
	var args []Val
	for i, p := range fn.Params {
		v := fx.freshVal(p.Type(), "in."+p.Name())
		fx.bornAtEntry(v)
		fr.regs[p] = v
		fx.describeInput(st, "in."+p.Name(), v, p.Type(), 2)
		if i == 0 && fn.Signature.Recv() != nil {
			recv = v
			if pv, ok := v.(PtrV); ok {
				fx.assumeGlobal(c.Not(c.Eq(pv.Ref, fx.nilRef())))
			}
		} else {
			args = append(args, v)
		}
		cv := CVal{V: v, T: p.Type()}
		if _, s, ok := intWidth(p.Type()); ok {
			cv.Signed = s
		}
		fr.cvars[p.Name()] = cv
	}
	for _, fv := range fn.FreeVars {
		v := fx.freshVal(fv.Type(), "free."+fv.Name())
		fr.regs[fv] = v
	}
	if fc != nil {
		// contract header names are bound positionally and shadow nothing
		for k, v := range fx.bindContractVars(fc, fn.Signature, recv, args) {
			fr.cvars[k] = v
		}
		env0 := &CEnv{fx: fx, fr: fr, st: st, vars: fr.cvars}
		for _, lg := range fc.Logical {
			s, signed := env0.sortOf(lg.Type)
			fr.cvars[lg.Name] = CVal{V: c.Const("logical."+lg.Name, s), G: lg.Type, Signed: signed}
		}
		for _, l := range fc.Lets {
			fr.cvars[l.Name] = env0.Eval(l.Expr)
		}
		env := &CEnv{fx: fx, fr: fr, st: st, vars: fr.cvars}
		fx.assumeAxioms(fr, st, fc.Props)
		for _, rq := range fc.Requires {
			g := fx.evalClause(fr, env, rq, "requires")
			st.pc = c.And(st.pc, g)
		}
		fx.followAliases = fc.FollowAliases
		for _, sp := range fc.Splits {
			fx.splits = append(fx.splits, fx.evalClause(fr, env, sp, "split"))
		}
		// vacuity guard: the precondition must be satisfiable
		if len(fc.Requires) > 0 {
			o := &Obligation{Name: key + "/vacuity/requires", Kind: "cover", Cover: true, PC: st.pc, Goal: c.False(),
				Assume: fx.assumes[:len(fx.assumes):len(fx.assumes)], Desc: "precondition is satisfiable"}
			fx.obls = append(fx.obls, o)
		}
	}
	// representation invariants of the receiver's type (assumed; established by the constructors)
	if fn.Signature.Recv() != nil && recv != nil {
		if n := namedOf(fn.Signature.Recv().Type()); n != nil && n.Obj().Pkg() != nil {
			tn := n.Obj().Pkg().Name() + "." + n.Obj().Name()
			for _, inv := range eng.db.ObjInvs[tn] {
				env := &CEnv{fx: fx, fr: fr, st: st, vars: map[string]CVal{"self": {V: recv, T: fn.Signature.Recv().Type()}}}
				g := fx.evalClause(fr, env, inv, "objinv")
				st.pc = c.And(st.pc, g)
				fx.note("representation invariant of " + tn + " assumed at method entry: " + inv.Src)
			}
		}
	}
	fr.entry = st.clone()
	fr.entryPC = st.pc
	fx.runBody(fr, st)
	// postconditions on the merged return state
	var toProve []Clause
	if fc != nil {
		if !fc.Assumed {
			toProve = append(toProve, fc.Ensures...)
			// a frame over a RANGE of a slice (modifies s[lo:hi]) is checked syntactically only as "writes into s";
			// that the cells of s outside the range keep their values is proved as an extra postcondition
			for _, m := range fc.Modifies {
				x := m.Expr
				if x.Op != "slice" || (x.Args[1] == nil && x.Args[2] == nil) {
					continue
				}
				base := exprString(x.Args[0])
				lo, hi := "0", "len("+base+")"
				if x.Args[1] != nil {
					lo = "(" + exprString(x.Args[1]) + ")"
				}
				if x.Args[2] != nil {
					hi = "(" + exprString(x.Args[2]) + ")"
				}
				src := fmt.Sprintf("forall k__ int :: 0 <= k__ && k__ < len(%s) && !(old(%s) <= k__ && k__ < old(%s)) ==> %s[k__] == old(%s[k__])", base, lo, hi, base, base)
				e, err := ParseCExpr(src)
				if err != nil {
					panic(oosError{"range frame: " + err.Error()})
				}
				toProve = append(toProve, Clause{Expr: e, Src: "range frame " + m.Src + ": " + src, Line: m.Line})
			}
		}
		toProve = append(toProve, fc.Proves...)
	}
	if fc != nil && len(toProve) > 0 && !opts.SafetyOnly {
		if len(fr.results) == 0 {
			return rep
		}
		var ins []incoming
		for _, r := range fr.results {
			ins = append(ins, incoming{st: r.st, cond: r.st.pc})
		}
		final := fx.mergeStates(ins)
		n := fn.Signature.Results().Len()
		var res Val
		if n > 0 {
			vals := make([]Val, n)
			for i := 0; i < n; i++ {
				v := fr.results[len(fr.results)-1].vals[i]
				for k := len(fr.results) - 2; k >= 0; k-- {
					v = fx.mergeVal(fr.results[k].st.pc, fr.results[k].vals[i], v)
				}
				vals[i] = v
			}
			if n == 1 {
				res = vals[0]
			} else {
				res = TupleV(vals)
			}
			fx.bindResults(fc, fn.Signature, res, fr.cvars)
		}
		env := &CEnv{fx: fx, fr: fr, st: final, old: fr.entry, vars: fr.cvars}
		coverOf := map[*Term]int{}
		for k, en := range toProve {
			if hasExists(en.Expr) || fc.PerSite {
				// existential postcondition: checked at each return site, where the live integer
				// locals (typically the loop index) are tried as witnesses; `persite` asks for the
				// same treatment of every postcondition (one smaller query per return)
				fx.ensuresPerSite(fr, fc, fn, k, en)
				continue
			}
			g := fx.evalClause(fr, env, en, "ensures")
			s2 := final.clone()
			fx.obligeNamed(fr, s2, fmt.Sprintf("ensures/%d", k+1), "ensures", fn.Pos(), g, "postcondition: "+en.Src)
			// cover: antecedent of an implication is reachable
			if en.Expr.Op == "bin" && en.Expr.Name == "==>" {
				ante := env.Bool(en.Expr.Args[0])
				o := &Obligation{Name: fmt.Sprintf("%s/vacuity/ensures/%d", key, k+1), Kind: "cover", Cover: true, PC: c.And(final.pc, ante), Goal: c.False(),
					Assume: fx.assumes[:len(fx.assumes):len(fx.assumes)], Desc: "antecedent of postcondition is reachable: " + exprString(en.Expr.Args[0])}
				// one cover per distinct antecedent: a later clause with the same antecedent replaces the
				// earlier cover (its assumption set is a superset, so it is the stronger check)
				if prev, ok := coverOf[o.PC]; ok {
					o.Name = fx.obls[prev].Name
					fx.obls[prev] = o
				} else {
					coverOf[o.PC] = len(fx.obls)
					fx.obls = append(fx.obls, o)
				}
			}
		}
	}
	return rep
}

func (fx *FnExec) addInputs(name string, v Val) {
	switch x := v.(type) {
	case *Term:
		if !x.Sort.IsArr() || true {
			fx.inputs = append(fx.inputs, namedTerm{name, x})
		}
	case SliceV:
		fx.inputs = append(fx.inputs, namedTerm{name + ".len", x.Len}, namedTerm{name + ".cap", x.Cap}, namedTerm{name + ".ref", x.Ref}, namedTerm{name + ".off", x.Off})
	case StrV:
		fx.inputs = append(fx.inputs, namedTerm{name + ".len", x.Len}, namedTerm{name + ".off", x.Off}, namedTerm{name + ".arr", x.Arr})
	case IfaceV:
		fx.inputs = append(fx.inputs, namedTerm{name + ".tag", x.Tag})
	case PtrV:
		if x.Ref != nil {
			fx.inputs = append(fx.inputs, namedTerm{name, x.Ref})
		}
	case StructV:
		for i, f := range x.F {
			fx.addInputs(fmt.Sprintf("%s.%d", name, i), f)
		}
	}
}

// assumeAxioms adds every axiom tagged with one of props as an assumption
// (axioms are listed in the evidence as unchecked assumptions).
func (fx *FnExec) assumeAxioms(fr *frame, st *State, props []string) {
	for _, ax := range fx.eng.db.Axioms {
		if ax.Lemma {
			continue
		}
		ok := false
		for _, p := range ax.Props {
			for _, q := range props {
				if p == q {
					ok = true
				}
			}
		}
		if !ok {
			continue
		}
		env := &CEnv{fx: fx, fr: fr, st: st, vars: map[string]CVal{}}
		var t *Term
		func() {
			defer func() {
				if r := recover(); r != nil {
					if ce, ok := r.(cerr); ok {
						panic(oosError{"axiom " + ax.Name + ": " + ce.msg})
					}
					panic(r)
				}
			}()
			t = env.Bool(ax.Expr)
		}()
		fx.assumeGlobal(t)
		fx.note("axiom " + ax.Name + ": " + exprString(ax.Expr))
	}
}

// ---- frame of pure functions: every heap write must target an object allocated by this call

func (fx *FnExec) isFreshRef(r *Term) bool {
	if r == nil {
		return false
	}
	if r.Op == "ite" {
		return fx.isFreshRef(r.Args[1]) && fx.isFreshRef(r.Args[2])
	}
	r = fx.rootRef(r)
	return r.Op == "const" && strings.HasPrefix(r.Name, "new!")
}

func (fx *FnExec) frameWrite(fr *frame, st *State, ref *Term, pos token.Pos, what string) {
	if !fx.pureMode || fr == nil {
		return
	}
	if ref != nil && fx.isFreshRef(ref) {
		return
	}
	fx.oblige(fr, st, "frame", pos, fx.c.False(), "pure function must not "+what)
}

func hasExists(x *CExpr) bool {
	if x == nil {
		return false
	}
	if x.Op == "exists" {
		return true
	}
	for _, a := range x.Args {
		if hasExists(a) {
			return true
		}
	}
	return false
}

// substWitness evaluates clause with the first `exists v T :: body` replaced by body[v := cand].
func withWitness(x *CExpr, cand string) (*CExpr, bool) {
	if x == nil {
		return nil, false
	}
	if x.Op == "exists" && len(x.Vars) == 1 {
		return &CExpr{Op: "let", Name: x.Vars[0].Name, Args: []*CExpr{{Op: "ident", Name: cand}, x.Args[0]}}, true
	}
	n := *x
	n.Src = ""
	n.Args = append([]*CExpr{}, x.Args...)
	for i, a := range x.Args {
		if r, ok := withWitness(a, cand); ok {
			n.Args[i] = r
			return &n, true
		}
	}
	return x, false
}

func (fx *FnExec) ensuresPerSite(fr *frame, fc *FuncContract, fn *ssa.Function, k int, en Clause) {
	nres := fn.Signature.Results().Len()
	for j, r := range fr.results {
		vars := map[string]CVal{}
		for n, v := range fr.cvars {
			vars[n] = v
		}
		if nres > 0 {
			var res Val
			if nres == 1 {
				res = r.vals[0]
			} else {
				res = TupleV(r.vals)
			}
			fx.bindResults(fc, fn.Signature, res, vars)
		}
		env := &CEnv{fx: fx, fr: fr, st: r.st, old: fr.entry, vars: vars}
		g := fx.evalClause(fr, env, en, "ensures")
		name := fmt.Sprintf("ensures/%d@ret%d", k+1, j+1)
		o := &Obligation{Name: fr.prefix + "/" + name, Kind: "ensures", Pos: fx.posOf(fr, r.pos), Desc: "postcondition at this return: " + en.Src, PC: r.st.pc, Goal: g,
			Assume: fx.assumes[:len(fx.assumes):len(fx.assumes)], Values: fx.inputs}
		// witness candidates: integer locals live at this return
		var cands []string
		seen := map[string]bool{}
		for a := range r.st.locals {
			t := a.Type().(*types.Pointer).Elem()
			if w, _, ok := intWidth(t); ok && w == 64 && a.Comment != "" && !seen[a.Comment] && a.Parent() == fn {
				seen[a.Comment] = true
				cands = append(cands, a.Comment)
			}
		}
		sort.Strings(cands)
		for _, cand := range cands {
			wx, ok := withWitness(en.Expr, "wit__")
			if !ok {
				break
			}
			var cv CVal
			found := false
			for a, v := range r.st.locals {
				if a.Comment == cand && a.Parent() == fn {
					t := a.Type().(*types.Pointer).Elem()
					cv = CVal{V: v, T: t}
					_, cv.Signed, _ = intWidth(t)
					found = true
				}
			}
			if !found {
				continue
			}
			e2 := &CEnv{fx: fx, fr: fr, st: r.st, old: fr.entry, vars: map[string]CVal{}}
			for n, v := range vars {
				e2.vars[n] = v
			}
			e2.vars["wit__"] = cv
			func() {
				defer func() {
					if rr := recover(); rr != nil {
						if _, ok := rr.(cerr); !ok {
							panic(rr)
						}
					}
				}()
				o.Alts = append(o.Alts, e2.Bool(wx))
			}()
		}
		fx.obls = append(fx.obls, o)
	}
}

// bornAtEntry: references passed in by the caller denote objects allocated before this call.
func (fx *FnExec) bornAtEntry(v Val) {
	c := fx.c
	zero := func(r *Term) {
		fx.assumeGlobal(c.Eq(c.App("born", BV(32), c.App("rootOf", RefSort, r)), c.BVInt(0, 32)))
		fx.assumeGlobal(c.Implies(c.Not(c.App("interior", BoolSort, r)), c.Eq(c.App("rootOf", RefSort, r), r)))
	}
	switch x := v.(type) {
	case PtrV:
		if x.Ref != nil {
			zero(x.Ref)
		}
	case SliceV:
		zero(x.Ref)
	case IfaceV:
		zero(x.Ref)
	case StructV:
		for _, f := range x.F {
			fx.bornAtEntry(f)
		}
	case *Term:
		if x.Sort == RefSort {
			zero(x)
		}
	}
}

// spawnRequires checks the preconditions of a contracted function at its `go` site.
func (fx *FnExec) spawnRequires(fr *frame, st *State, g *ssa.Go) {
	callee := g.Call.StaticCallee()
	if callee == nil {
		return
	}
	key := funcKey(callee)
	fc := fx.eng.db.Funcs[key]
	if fc == nil || len(fc.Requires) == 0 {
		return
	}
	var args []Val
	for _, a := range g.Call.Args {
		args = append(args, fx.coerce(fx.val(fr, a), a.Type()))
	}
	var recv Val
	if callee.Signature.Recv() != nil && len(args) > 0 {
		recv, args = args[0], args[1:]
	}
	vars := fx.bindContractVars(fc, callee.Signature, recv, args)
	env := &CEnv{fx: fx, st: st, vars: vars, fr: &frame{fn: callee}}
	fx.callSeq++
	fx.usedContracts[key] = fc
	for k, rq := range fc.Requires {
		gl := fx.evalCallClause(env, rq, "requires of "+key)
		fx.obligeNamed(fr, st, fmt.Sprintf("go%d:%s/requires/%d", fx.callSeq, shortKey(key), k+1), "requires", g.Pos(), gl, "precondition of spawned "+key+": "+rq.Src)
	}
}

// mentionsIdent: the expression mentions one of the identifiers.
func mentionsIdent(x *CExpr, names map[string]bool) bool {
	if x == nil {
		return false
	}
	if x.Op == "ident" && names[x.Name] {
		return true
	}
	for _, a := range x.Args {
		if mentionsIdent(a, names) {
			return true
		}
	}
	return false
}

func countCalls(x *CExpr, name string) int {
	if x == nil {
		return 0
	}
	n := 0
	if x.Op == "call" && x.Name == name {
		n++
	}
	for _, a := range x.Args {
		n += countCalls(a, name)
	}
	return n
}

// modifiesOnlyFresh: every modifies target of fc is a slice range or pointer target whose object was
// allocated during the current execution (ghost state and opaque() targets do not count as writes).
func (fx *FnExec) modifiesOnlyFresh(fc *FuncContract, st *State, mkEnv func(*State, *State) *CEnv) (ok bool) {
	defer func() {
		if r := recover(); r != nil {
			ok = false
		}
	}()
	env := mkEnv(st, nil)
	for _, m := range fc.Modifies {
		x := m.Expr
		if x.Op == "call" && x.Name == "opaque" {
			continue
		}
		var base *CExpr
		switch x.Op {
		case "slice", "index":
			base = x.Args[0]
		case "deref":
			base = x.Args[0]
		default:
			return false
		}
		v := env.Eval(base)
		var ref *Term
		switch p := v.V.(type) {
		case SliceV:
			ref = p.Ref
		case PtrV:
			if p.Kind == PObj || p.Kind == PBox {
				ref = p.Ref
			}
		}
		if ref == nil || !fx.isFreshRef(ref) {
			return false
		}
	}
	return true
}
