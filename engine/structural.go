package main

// Structural obligations decided by scanning SSA rather than by SMT:
// package-wide frame conditions ("only these functions store to field F")
// and reachability ("no static path from X to Y").

import (
	"fmt"
	"go/token"
	"go/types"
	"sort"
	"strings"

	"golang.org/x/tools/go/ssa"
	"golang.org/x/tools/go/ssa/ssautil"
)

type structObl struct {
	Name   string
	OK     bool
	Detail string
	// Offenders: the individual sites that break the obligation (writers: obligations); a known finding
	// names one site, so any other offender is still reported
	Offenders []structOffender
}

type structOffender struct {
	Func string // function key
	Pos  string // file:line
	What string
}

// spec syntax:
//
//	writers:<pkgname>.<Type>.<field>=<funcKey>,<funcKey>,…
//	nonblocking:<funcKey>,<funcKey>,…   (no blocking channel operation in the bodies: every select has a default, no bare send / receive)
//	atomicstore:<funcKey>=<Type>.<field>:<true|false>   (on every path from entry to a return the function stores that constant into that sync/atomic.Bool field)
//	callswith:<funcKey>=<pkgpath>.<Func>(<Type>.<field>)   (the function or one of its closures calls Func with a slice of that field of a heap object)
//	allpaths:<funcKey>=close(<field>)|go(<method name>)|…   (every path from entry to a return passes one of these)
//	nocall:<funcKey-prefix-list>-><funcKey-prefix-list>
//	nodirectcall:<funcKey-list>-><funcKey-list>   (calls in the bodies of the first list only)
func (eng *Engine) structuralObligations(pc *PropConfig) []structObl {
	var out []structObl
	{
		var fs []string
		for f := range eng.db.StableFields {
			fs = append(fs, f)
		}
		sort.Strings(fs)
		for _, f := range fs {
			// only when the type's package is loaded in this check
			o := eng.writersObl(f+"="+eng.db.StableFields[f], true)
			if strings.HasPrefix(o.Detail, "contract-target-missing") {
				continue
			}
			o.Name = "stablefield:" + f + "=" + eng.db.StableFields[f]
			out = append(out, o)
		}
	}
	for _, s := range pc.Structural {
		switch {
		case strings.HasPrefix(s, "writers:"):
			out = append(out, eng.writersObl(strings.TrimPrefix(s, "writers:"), false))
		case strings.HasPrefix(s, "mapwriters:"):
			out = append(out, eng.mapWritersObl(strings.TrimPrefix(s, "mapwriters:")))
		case strings.HasPrefix(s, "nonblocking:"):
			out = append(out, eng.nonBlockingObl(strings.TrimPrefix(s, "nonblocking:")))
		case strings.HasPrefix(s, "callswith:"):
			out = append(out, eng.callsWithObl(strings.TrimPrefix(s, "callswith:")))
		case strings.HasPrefix(s, "atomicstore:"):
			out = append(out, eng.atomicStoreObl(strings.TrimPrefix(s, "atomicstore:")))
		case strings.HasPrefix(s, "allpaths:"):
			out = append(out, eng.allPathsObl(strings.TrimPrefix(s, "allpaths:")))
		case strings.HasPrefix(s, "nocall:"):
			out = append(out, eng.noCallObl(strings.TrimPrefix(s, "nocall:"), false))
		case strings.HasPrefix(s, "nodirectcall:"):
			out = append(out, eng.noCallObl(strings.TrimPrefix(s, "nodirectcall:"), true))
		default:
			out = append(out, structObl{Name: s, OK: false, Detail: "unknown structural obligation"})
		}
	}
	return out
}

func (eng *Engine) repoFunctions() []*ssa.Function {
	var fns []*ssa.Function
	for fn := range ssautil.AllFunctions(eng.prog) {
		if strings.HasPrefix(pkgPathOf(fn), repoModule) {
			fns = append(fns, fn)
		}
	}
	sort.Slice(fns, func(i, j int) bool { return fns[i].String() < fns[j].String() })
	return fns
}

func outermost(fn *ssa.Function) *ssa.Function {
	for fn.Parent() != nil {
		fn = fn.Parent()
	}
	return fn
}

// strict additionally rejects (outside the permitted writers) taking the field's address for anything but a
// load or store, and whole-struct stores through a pointer to the type - needed when the field is declared stable.
func (eng *Engine) writersObl(spec string, strict bool) structObl {
	name := "writers:" + spec
	parts := strings.SplitN(spec, "=", 2)
	if len(parts) != 2 {
		return structObl{Name: name, OK: false, Detail: "bad spec"}
	}
	target := parts[0] // pkg.Type.field
	allowed := map[string]bool{}
	for _, a := range strings.Split(parts[1], ",") {
		allowed[strings.TrimSpace(a)] = true
	}
	var bad []string
	var offenders []structOffender
	found := false
	for _, fn := range eng.repoFunctions() {
		for _, b := range fn.Blocks {
			for _, ins := range b.Instrs {
				if strict {
					if fa, ok := ins.(*ssa.FieldAddr); ok {
						pt := fa.X.Type().Underlying().(*types.Pointer).Elem()
						if typeKey(pt)+"."+under(pt).(*types.Struct).Field(fa.Field).Name() == target {
							for _, u := range *fa.Referrers() {
								switch x := u.(type) {
								case *ssa.Store:
									if x.Addr == fa {
										continue
									}
								case *ssa.UnOp, *ssa.DebugRef:
									continue
								}
								if k := funcKey(outermost(fn)); !allowed[k] {
									bad = append(bad, fmt.Sprintf("%s takes the field's address at %s", k, eng.prog.Fset.Position(fa.Pos())))
								}
							}
						}
					}
					if st, ok := ins.(*ssa.Store); ok {
						if pt, ok := st.Addr.Type().Underlying().(*types.Pointer); ok {
							i := strings.LastIndexByte(target, '.')
							if _, isStruct := under(pt.Elem()).(*types.Struct); isStruct && i > 0 && typeKey(pt.Elem()) == target[:i] {
								if _, isAlloc := st.Addr.(*ssa.Alloc); !isAlloc {
									if k := funcKey(outermost(fn)); !allowed[k] {
										bad = append(bad, fmt.Sprintf("%s overwrites a whole %s at %s", k, target[:i], eng.prog.Fset.Position(st.Pos())))
									}
								}
							}
						}
					}
				}
				st, ok := ins.(*ssa.Store)
				if !ok {
					continue
				}
				fa, ok := st.Addr.(*ssa.FieldAddr)
				if !ok {
					continue
				}
				pt := fa.X.Type().Underlying().(*types.Pointer).Elem()
				sname := typeKey(pt) + "." + under(pt).(*types.Struct).Field(fa.Field).Name()
				if sname != target {
					continue
				}
				found = true
				k := funcKey(outermost(fn))
				if !allowed[k] {
					bad = append(bad, fmt.Sprintf("%s at %s", k, eng.prog.Fset.Position(st.Pos())))
					p := eng.prog.Fset.Position(st.Pos())
					offenders = append(offenders, structOffender{k, fmt.Sprintf("%s:%d", p.Filename, p.Line), "store to " + target})
				}
			}
		}
	}
	// composite literals &T{field: v} also initialise the field through FieldAddr+Store in SSA, so they are covered above
	if !found {
		return structObl{Name: name, OK: false, Detail: "contract-target-missing: no store to " + target + " found at all"}
	}
	if len(bad) > 0 {
		return structObl{Name: name, OK: false, Detail: "store to " + target + " outside the permitted writers: " + strings.Join(bad, "; "), Offenders: offenders}
	}
	return structObl{Name: name, OK: true, Detail: ""}
}

// mapwriters:<pkg>.<Type>.<field>=<funcKey>,…  — only these functions update/delete entries of the map held in that field
func (eng *Engine) mapWritersObl(spec string) structObl {
	name := "mapwriters:" + spec
	parts := strings.SplitN(spec, "=", 2)
	if len(parts) != 2 {
		return structObl{Name: name, OK: false, Detail: "bad spec"}
	}
	target := parts[0]
	allowed := map[string]bool{}
	for _, a := range strings.Split(parts[1], ",") {
		allowed[strings.TrimSpace(a)] = true
	}
	fieldOf := func(v ssa.Value) string {
		// map value loaded from a field: *(&x.f)
		if u, ok := v.(*ssa.UnOp); ok {
			if fa, ok := u.X.(*ssa.FieldAddr); ok {
				pt := fa.X.Type().Underlying().(*types.Pointer).Elem()
				return typeKey(pt) + "." + under(pt).(*types.Struct).Field(fa.Field).Name()
			}
		}
		return ""
	}
	var bad []string
	found := false
	for _, fn := range eng.repoFunctions() {
		for _, b := range fn.Blocks {
			for _, ins := range b.Instrs {
				var m ssa.Value
				switch x := ins.(type) {
				case *ssa.MapUpdate:
					m = x.Map
				case *ssa.Call:
					if bi, ok := x.Call.Value.(*ssa.Builtin); ok && bi.Name() == "delete" {
						m = x.Call.Args[0]
					}
				}
				if m == nil || fieldOf(m) != target {
					continue
				}
				found = true
				k := funcKey(outermost(fn))
				if !allowed[k] {
					bad = append(bad, fmt.Sprintf("%s at %s", k, eng.prog.Fset.Position(ins.Pos())))
				}
			}
		}
	}
	if !found {
		return structObl{Name: name, OK: false, Detail: "contract-target-missing: no update of map " + target + " found at all"}
	}
	if len(bad) > 0 {
		return structObl{Name: name, OK: false, Detail: "update of map " + target + " outside the permitted writers: " + strings.Join(bad, "; ")}
	}
	return structObl{Name: name, OK: true, Detail: ""}
}

// nocall:from1,from2->to1,to2 : no static call path from any `from` to any `to`.
// nodirectcall: same, but only calls written in the bodies of the `from` functions themselves (and their closures).
func (eng *Engine) noCallObl(spec string, direct bool) structObl {
	name := "nocall:" + spec
	if direct {
		name = "nodirectcall:" + spec
	}
	parts := strings.SplitN(spec, "->", 2)
	if len(parts) != 2 {
		return structObl{Name: name, OK: false, Detail: "bad spec"}
	}
	var from []*ssa.Function
	for _, k := range strings.Split(parts[0], ",") {
		f := eng.FuncByKey(strings.TrimSpace(k))
		if f == nil {
			return structObl{Name: name, OK: false, Detail: "contract-target-missing: " + k}
		}
		from = append(from, f)
	}
	to := map[string]bool{}
	for _, k := range strings.Split(parts[1], ",") {
		k = strings.TrimSpace(k)
		if eng.FuncByKey(k) == nil {
			return structObl{Name: name, OK: false, Detail: "contract-target-missing: " + k}
		}
		to[k] = true
	}
	seen := map[*ssa.Function]bool{}
	parent := map[*ssa.Function]*ssa.Function{}
	queue := append([]*ssa.Function{}, from...)
	for _, f := range from {
		seen[f] = true
	}
	for len(queue) > 0 {
		f := queue[0]
		queue = queue[1:]
		if to[funcKey(f)] {
			var path []string
			for x := f; x != nil; x = parent[x] {
				path = append([]string{funcKey(x)}, path...)
			}
			return structObl{Name: name, OK: false, Detail: "static call path: " + strings.Join(path, " -> ")}
		}
		isFrom := false
		for _, ff := range from {
			if ff == f || (f.Parent() != nil && f.Parent() == ff) {
				isFrom = true
			}
		}
		if direct && !isFrom {
			continue
		}
		visit := func(g *ssa.Function) {
			if g != nil && !seen[g] && strings.HasPrefix(pkgPathOf(g), repoModule) {
				seen[g] = true
				parent[g] = f
				queue = append(queue, g)
			}
		}
		for _, b := range f.Blocks {
			for _, ins := range b.Instrs {
				switch x := ins.(type) {
				case ssa.CallInstruction:
					visit(x.Common().StaticCallee())
					for _, a := range x.Common().Args {
						if g, ok := a.(*ssa.Function); ok {
							visit(g)
						}
						if mc, ok := a.(*ssa.MakeClosure); ok {
							visit(mc.Fn.(*ssa.Function))
						}
					}
				case *ssa.MakeClosure:
					visit(x.Fn.(*ssa.Function))
				}
			}
		}
		for _, an := range f.AnonFuncs {
			visit(an)
		}
	}
	return structObl{Name: name, OK: true, Detail: ""}
}

// allpaths:<funcKey>=ev1|ev2|… : on every control-flow path of the function from its entry to a return, at least one
// of the events happens.  Events: close(<field>) - the builtin close applied to a channel loaded from a struct field
// of that name; go(<name>) - a go statement starting a function or method of that name.  Forward must-analysis over the
// SSA control-flow graph (a loop that can be left only through blocks that have seen an event counts; paths that end in
// panic are ignored).
func (eng *Engine) allPathsObl(spec string) structObl {
	name := "allpaths:" + spec
	parts := strings.SplitN(spec, "=", 2)
	if len(parts) != 2 {
		return structObl{Name: name, OK: false, Detail: "bad spec"}
	}
	fn := eng.FuncByKey(strings.TrimSpace(parts[0]))
	if fn == nil || len(fn.Blocks) == 0 {
		return structObl{Name: name, OK: false, Detail: "contract-target-missing: " + parts[0]}
	}
	type ev struct{ kind, arg string }
	var evs []ev
	for _, e := range strings.Split(parts[1], "|") {
		e = strings.TrimSpace(e)
		switch {
		case strings.HasPrefix(e, "close(") && strings.HasSuffix(e, ")"):
			evs = append(evs, ev{"close", e[6 : len(e)-1]})
		case strings.HasPrefix(e, "go(") && strings.HasSuffix(e, ")"):
			evs = append(evs, ev{"go", e[3 : len(e)-1]})
		default:
			return structObl{Name: name, OK: false, Detail: "unknown event " + e}
		}
	}
	isEvent := func(ins ssa.Instruction) bool {
		for _, e := range evs {
			switch e.kind {
			case "close":
				var cc *ssa.CallCommon
				switch x := ins.(type) {
				case *ssa.Call:
					cc = &x.Call
				case *ssa.Defer:
					continue // a deferred close runs at return, but only if the defer statement was reached: handled below
				}
				if cc == nil {
					continue
				}
				if b, ok := cc.Value.(*ssa.Builtin); ok && b.Name() == "close" && len(cc.Args) == 1 {
					if u, ok := cc.Args[0].(*ssa.UnOp); ok {
						if fa, ok := u.X.(*ssa.FieldAddr); ok {
							pt := fa.X.Type().Underlying().(*types.Pointer).Elem()
							if under(pt).(*types.Struct).Field(fa.Field).Name() == e.arg {
								return true
							}
						}
					}
				}
			case "go":
				if g, ok := ins.(*ssa.Go); ok {
					if callee := g.Call.StaticCallee(); callee != nil && callee.Name() == e.arg {
						return true
					}
				}
			}
		}
		return false
	}
	// seen[b] = an event has certainly happened on every path reaching the END of block b
	n := len(fn.Blocks)
	out := make([]bool, n)
	for i := range out {
		out[i] = true // optimistic
	}
	has := make([]bool, n)
	for i, b := range fn.Blocks {
		for _, ins := range b.Instrs {
			if isEvent(ins) {
				has[i] = true
			}
		}
	}
	for changed := true; changed; {
		changed = false
		for i, b := range fn.Blocks {
			in := len(b.Preds) > 0
			for _, p := range b.Preds {
				if !out[p.Index] {
					in = false
				}
			}
			if i == 0 {
				in = false
			}
			v := in || has[i]
			if v != out[i] {
				out[i] = v
				changed = true
			}
		}
	}
	var bad []string
	for i, b := range fn.Blocks {
		if len(b.Instrs) == 0 {
			continue
		}
		if b == fn.Recover || (i != 0 && len(b.Preds) == 0) {
			continue // the recover block / unreachable blocks: not a normal path
		}
		if ret, ok := b.Instrs[len(b.Instrs)-1].(*ssa.Return); ok && !out[i] {
			bad = append(bad, eng.prog.Fset.Position(ret.Pos()).String())
		}
	}
	if len(bad) > 0 {
		return structObl{Name: name, OK: false, Detail: "a path reaches the return at " + strings.Join(bad, ", ") + " without any of: " + parts[1]}
	}
	return structObl{Name: name, OK: true}
}

// callswith:<funcKey>=<pkgpath>.<Func>(<Type>.<field>) : somewhere in the function (or a closure nested in it) there is
// a call of <pkgpath>.<Func> whose first argument is a slice x.<field>[:] of the <field> of a <Type> object reached
// through a pointer (a field of a local COPY of the object does not count).  Used where a contract relies on "this
// array field is filled by that call".
func (eng *Engine) callsWithObl(spec string) structObl {
	name := "callswith:" + spec
	parts := strings.SplitN(spec, "=", 2)
	if len(parts) != 2 || !strings.HasSuffix(parts[1], ")") || !strings.Contains(parts[1], "(") {
		return structObl{Name: name, OK: false, Detail: "bad spec"}
	}
	fn := eng.FuncByKey(strings.TrimSpace(parts[0]))
	if fn == nil {
		return structObl{Name: name, OK: false, Detail: "contract-target-missing: " + parts[0]}
	}
	i := strings.IndexByte(parts[1], '(')
	callee := parts[1][:i]
	field := parts[1][i+1 : len(parts[1])-1]
	j := strings.LastIndexByte(callee, '.')
	if j < 0 {
		return structObl{Name: name, OK: false, Detail: "bad callee"}
	}
	pkgPath, fname := callee[:j], callee[j+1:]
	var fns []*ssa.Function
	var collect func(f *ssa.Function)
	collect = func(f *ssa.Function) {
		fns = append(fns, f)
		for _, a := range f.AnonFuncs {
			collect(a)
		}
	}
	collect(fn)
	fromPointer := func(v ssa.Value) bool {
		// the struct whose field is addressed is reached through a pointer value that is not a local Alloc of the struct itself
		for depth := 0; depth < 6; depth++ {
			switch x := v.(type) {
			case *ssa.Alloc:
				_, isStruct := under(x.Type().(*types.Pointer).Elem()).(*types.Struct)
				return !isStruct
			case *ssa.UnOp:
				return true // loaded pointer (receiver / captured variable / field)
			case *ssa.Parameter, *ssa.FreeVar:
				return true
			case *ssa.FieldAddr:
				v = x.X
			default:
				return false
			}
		}
		return false
	}
	for _, f := range fns {
		for _, b := range f.Blocks {
			for _, ins := range b.Instrs {
				ci, ok := ins.(ssa.CallInstruction)
				if !ok {
					continue
				}
				cal := ci.Common().StaticCallee()
				if cal == nil || cal.Name() != fname || pkgPathOf(cal) != pkgPath || len(ci.Common().Args) == 0 {
					continue
				}
				sl, ok := ci.Common().Args[0].(*ssa.Slice)
				if !ok {
					continue
				}
				fa, ok := sl.X.(*ssa.FieldAddr)
				if !ok {
					continue
				}
				pt := fa.X.Type().Underlying().(*types.Pointer).Elem()
				if typeKey(pt)+"."+under(pt).(*types.Struct).Field(fa.Field).Name() != field {
					continue
				}
				if fromPointer(fa.X) {
					return structObl{Name: name, OK: true}
				}
			}
		}
	}
	// one level of indirection: the field's address (or a slice of it) is handed to a helper of the repository that
	// passes (a slice of) that parameter on to <pkgpath>.<Func>
	isFieldRef := func(v ssa.Value) bool {
		if sl, ok := v.(*ssa.Slice); ok {
			v = sl.X
		}
		fa, ok := v.(*ssa.FieldAddr)
		if !ok {
			return false
		}
		pt := fa.X.Type().Underlying().(*types.Pointer).Elem()
		return typeKey(pt)+"."+under(pt).(*types.Struct).Field(fa.Field).Name() == field && fromPointer(fa.X)
	}
	derivesFrom := func(v ssa.Value, p *ssa.Parameter) bool {
		for depth := 0; depth < 6; depth++ {
			switch x := v.(type) {
			case *ssa.Parameter:
				return x == p
			case *ssa.Slice:
				v = x.X
			case *ssa.UnOp:
				// NaiveForm spills parameters: *(&local) where the local was stored from the parameter
				if a, ok := x.X.(*ssa.Alloc); ok {
					for _, r := range *a.Referrers() {
						if st, ok := r.(*ssa.Store); ok && st.Addr == a {
							if pp, ok := st.Val.(*ssa.Parameter); ok && pp == p {
								return true
							}
						}
					}
				}
				return false
			default:
				return false
			}
		}
		return false
	}
	for _, f := range fns {
		for _, b := range f.Blocks {
			for _, ins := range b.Instrs {
				ci, ok := ins.(ssa.CallInstruction)
				if !ok {
					continue
				}
				g := ci.Common().StaticCallee()
				if g == nil || !strings.HasPrefix(pkgPathOf(g), repoModule) || len(g.Blocks) == 0 {
					continue
				}
				for ai, a := range ci.Common().Args {
					if !isFieldRef(a) || ai >= len(g.Params) {
						continue
					}
					p := g.Params[ai]
					for _, gb := range g.Blocks {
						for _, gi := range gb.Instrs {
							gc, ok := gi.(ssa.CallInstruction)
							if !ok {
								continue
							}
							cal := gc.Common().StaticCallee()
							if cal == nil || cal.Name() != fname || pkgPathOf(cal) != pkgPath || len(gc.Common().Args) == 0 {
								continue
							}
							if derivesFrom(gc.Common().Args[0], p) {
								return structObl{Name: name, OK: true}
							}
						}
					}
				}
			}
		}
	}
	return structObl{Name: name, OK: false, Detail: "no call of " + callee + " with a slice of " + field + " of a heap object in " + parts[0] + " or its closures"}
}

// nonblocking:<funcKey>,… : the bodies of these functions contain no channel operation that can block: every select
// statement has a default case, and there is no send or receive outside a select.  (Calls are not followed; locks are
// not channel operations.)  Used for the functions the muxer's single receive goroutine runs for every frame.
func (eng *Engine) nonBlockingObl(spec string) structObl {
	name := "nonblocking:" + spec
	var bad []string
	for _, k := range strings.Split(spec, ",") {
		k = strings.TrimSpace(k)
		fn := eng.FuncByKey(k)
		if fn == nil {
			return structObl{Name: name, OK: false, Detail: "contract-target-missing: " + k}
		}
		for _, b := range fn.Blocks {
			for _, ins := range b.Instrs {
				switch x := ins.(type) {
				case *ssa.Select:
					if x.Blocking {
						bad = append(bad, k+": select without default at "+eng.prog.Fset.Position(x.Pos()).String())
					}
				case *ssa.Send:
					bad = append(bad, k+": channel send at "+eng.prog.Fset.Position(x.Pos()).String())
				case *ssa.UnOp:
					if x.Op == token.ARROW {
						bad = append(bad, k+": channel receive at "+eng.prog.Fset.Position(x.Pos()).String())
					}
				}
			}
		}
	}
	if len(bad) > 0 {
		return structObl{Name: name, OK: false, Detail: strings.Join(bad, "; ")}
	}
	return structObl{Name: name, OK: true}
}

// atomicstore:<funcKey>=<Type>.<field>:<true|false> : in the function's entry block chain - on every path to a return
// that does not pass an earlier return - there is a call (*sync/atomic.Bool).Store(<const>) whose receiver is the
// address of <field> of a <Type> object.  sync/atomic cells are not tracked by the symbolic execution, so that a
// constructor leaves such a flag in its initial protocol state can only be stated structurally.  Checked conservatively:
// the store must be in a block that dominates every SUCCESS return (a return whose last result is the nil error).
func (eng *Engine) atomicStoreObl(spec string) structObl {
	name := "atomicstore:" + spec
	parts := strings.SplitN(spec, "=", 2)
	if len(parts) != 2 || !strings.Contains(parts[1], ":") {
		return structObl{Name: name, OK: false, Detail: "bad spec"}
	}
	fn := eng.FuncByKey(strings.TrimSpace(parts[0]))
	if fn == nil {
		return structObl{Name: name, OK: false, Detail: "contract-target-missing: " + parts[0]}
	}
	k := strings.LastIndexByte(parts[1], ':')
	field, want := parts[1][:k], parts[1][k+1:]
	var storeBlocks []*ssa.BasicBlock
	for _, b := range fn.Blocks {
		for _, ins := range b.Instrs {
			ci, ok := ins.(ssa.CallInstruction)
			if !ok {
				continue
			}
			cal := ci.Common().StaticCallee()
			if cal == nil || cal.Name() != "Store" || pkgPathOf(cal) != "sync/atomic" || len(ci.Common().Args) != 2 {
				continue
			}
			fa, ok := ci.Common().Args[0].(*ssa.FieldAddr)
			if !ok {
				continue
			}
			pt := fa.X.Type().Underlying().(*types.Pointer).Elem()
			if typeKey(pt)+"."+under(pt).(*types.Struct).Field(fa.Field).Name() != field {
				continue
			}
			cst, ok := ci.Common().Args[1].(*ssa.Const)
			if !ok || cst.Value == nil || cst.Value.String() != want {
				continue
			}
			storeBlocks = append(storeBlocks, b)
		}
	}
	if len(storeBlocks) == 0 {
		return structObl{Name: name, OK: false, Detail: "no (*atomic.Bool).Store(" + want + ") on " + field + " in " + parts[0]}
	}
	// every success return must be dominated by a storing block
	for _, b := range fn.Blocks {
		if len(b.Instrs) == 0 {
			continue
		}
		ret, ok := b.Instrs[len(b.Instrs)-1].(*ssa.Return)
		if !ok || len(ret.Results) == 0 {
			continue
		}
		last := ret.Results[len(ret.Results)-1]
		if c, isC := last.(*ssa.Const); !isC || !c.IsNil() {
			continue // an error return
		}
		dominated := false
		for _, sb := range storeBlocks {
			if sb.Dominates(b) {
				dominated = true
			}
		}
		if !dominated {
			return structObl{Name: name, OK: false, Detail: "a success return of " + parts[0] + " is not preceded by the store on every path"}
		}
	}
	return structObl{Name: name, OK: true}
}
