package main

// Calls: builtins, contracts, inlining, havoc.

import (
	"fmt"
	"go/token"
	"go/types"
	"os"
	"runtime"
	"sort"
	"strings"

	"golang.org/x/tools/go/ssa"
)

const repoModule = "hop.computer/hop"

// funcKey gives the contract key of a function: pkgname.Recv.Name.
func funcKey(fn *ssa.Function) string {
	if fn == nil {
		return ""
	}
	if fn.Parent() != nil {
		// closure: parent key + $N
		return funcKey(fn.Parent()) + strings.TrimPrefix(fn.Name(), fn.Parent().Name())
	}
	name := fn.Name()
	if i := strings.IndexByte(name, '['); i > 0 {
		name = name[:i] // instance of a generic function: keyed by the generic's name
	}
	pkgName := ""
	if fn.Pkg != nil {
		pkgName = fn.Pkg.Pkg.Name()
	} else if fn.Signature.Recv() != nil {
		if n := namedOf(fn.Signature.Recv().Type()); n != nil && n.Obj().Pkg() != nil {
			pkgName = n.Obj().Pkg().Name()
		}
	} else if o := fn.Object(); o != nil && o.Pkg() != nil {
		pkgName = o.Pkg().Name()
	}
	if recv := fn.Signature.Recv(); recv != nil {
		if n := namedOf(recv.Type()); n != nil {
			return pkgName + "." + n.Obj().Name() + "." + name
		}
	}
	return pkgName + "." + name
}

func namedOf(t types.Type) *types.Named {
	if p, ok := t.(*types.Pointer); ok {
		t = p.Elem()
	}
	if a, ok := t.(*types.Alias); ok {
		t = types.Unalias(a)
	}
	n, _ := t.(*types.Named)
	return n
}

func pkgPathOf(fn *ssa.Function) string {
	if fn.Pkg != nil {
		return fn.Pkg.Pkg.Path()
	}
	if o := fn.Object(); o != nil && o.Pkg() != nil {
		return o.Pkg().Path()
	}
	if recv := fn.Signature.Recv(); recv != nil {
		if n := namedOf(recv.Type()); n != nil && n.Obj().Pkg() != nil {
			return n.Obj().Pkg().Path()
		}
	}
	return ""
}

// call executes a call instruction and records it in the call-trace ghosts
// (called(F), resultof(F, r), argof(F, p) in contracts refer to the LAST call of F).
func (fx *FnExec) call(fr *frame, st *State, res ssa.Value, cc *ssa.CallCommon) Val {
	r := fx.call0(fr, st, res, cc)
	if _, isB := cc.Value.(*ssa.Builtin); isB {
		return r
	}
	key := ""
	if cc.IsInvoke() {
		key = ifaceMethodKey(cc.Value.Type(), cc.Method.Name())
	} else if callee := cc.StaticCallee(); callee != nil {
		key = funcKey(callee)
		if pkgPathOf(callee) == "github.com/sirupsen/logrus" {
			return r
		}
	} else if gk := globalFuncKey(cc); gk != "" {
		key = gk
	} else if fk := fieldFuncKey(cc); fk != "" {
		key = fk
	} else {
		return r
	}
	if !fx.eng.traced[key] {
		return r
	}
	c := fx.c
	st.ghost["call|"+key+"|called"] = c.True()
	seq, okq := st.ghost["callseq"].(*Term)
	if !okq {
		seq = fx.bv64(0)
	}
	seq = c.BVBin("bvadd", seq, fx.bv64(1))
	st.ghost["callseq"] = seq
	st.ghost["call|"+key+"|seq"] = seq
	cnt, ok := st.ghost["call|"+key+"|count"].(*Term)
	if !ok {
		cnt = fx.bv64(0)
	}
	st.ghost["call|"+key+"|count"] = c.BVBin("bvadd", cnt, fx.bv64(1))
	off := 0
	if cc.IsInvoke() {
		st.ghost["call|"+key+"|recv"] = fx.val(fr, cc.Value)
	} else if cc.StaticCallee() != nil && cc.StaticCallee().Signature.Recv() != nil && len(cc.Args) > 0 {
		st.ghost["call|"+key+"|recv"] = fx.coerce(fx.val(fr, cc.Args[0]), cc.Args[0].Type())
		off = 1
	}
	for i := off; i < len(cc.Args); i++ {
		st.ghost[fmt.Sprintf("call|%s|arg%d", key, i-off)] = fx.coerce(fx.val(fr, cc.Args[i]), cc.Args[i].Type())
	}
	if r != nil {
		if tv, ok := r.(TupleV); ok {
			for i, x := range tv {
				st.ghost[fmt.Sprintf("call|%s|res%d", key, i)] = x
			}
		} else {
			st.ghost["call|"+key+"|res0"] = r
		}
	}
	if fr.depth == 0 && fr.contract != nil {
		for _, a := range fr.contract.Afters {
			if a.Callee != key {
				continue
			}
			if a.Ordinal > 0 {
				cnt, _ := st.ghost["call|"+key+"|count"].(*Term)
				if cnt == nil || cnt.Op != "bv" || !cnt.Val.IsInt64() || cnt.Val.Int64() != int64(a.Ordinal) {
					continue
				}
			}
			env := &CEnv{fx: fx, fr: fr, st: st, old: fr.entry, vars: fr.cvars, scope: cc.Pos()}
			v := env.Eval(a.Expr)
			t, ok := v.V.(*Term)
			if !ok {
				panic(oosError{"after ... let: scalar expression expected (" + a.Name + ")"})
			}
			st.ghost["cap|"+a.Name] = t
			v.V = nil
			if fx.capTypes == nil {
				fx.capTypes = map[string]CVal{}
			}
			fx.capTypes[a.Name] = v
		}
	}
	return r
}

func (fx *FnExec) call0(fr *frame, st *State, res ssa.Value, cc *ssa.CallCommon) Val {
	var args []Val
	for _, a := range cc.Args {
		args = append(args, fx.coerce(fx.val(fr, a), a.Type()))
	}
	var rt types.Type
	if res != nil {
		rt = res.Type()
	} else {
		rt = cc.Signature().Results()
	}
	pos := cc.Pos()
	if b, ok := cc.Value.(*ssa.Builtin); ok {
		return fx.builtin(fr, st, b, cc, args, rt, pos)
	}
	if cc.IsInvoke() {
		recv := fx.val(fr, cc.Value)
		key := ifaceMethodKey(cc.Value.Type(), cc.Method.Name())
		fx.callSeq++
		if iv, ok := recv.(IfaceV); ok {
			if !fx.opts.NoSafety {
				nn := fx.c.Not(fx.c.Eq(iv.Tag, fx.c.BVInt(0, 32)))
				st.pc = fx.c.And(st.pc, nn)
			}
			// devirtualise when the dynamic type is known
			if iv.Tag.Op == "bv" && iv.Tag.Val.IsInt64() {
				if ct := fx.eng.typeOfTag(int(iv.Tag.Val.Int64())); ct != nil {
					if sel := fx.eng.prog.MethodSets.MethodSet(ct).Lookup(cc.Method.Pkg(), cc.Method.Name()); sel != nil {
						if m := fx.eng.prog.MethodValue(sel); m != nil {
							var rv Val
							if p, isP := under(ct).(*types.Pointer); isP {
								rv = fx.ptrFromRef(p.Elem(), iv.Ref)
							} else {
								rv = fx.unbox(st, ct, iv.Ref)
							}
							return fx.staticCall(fr, st, m, append([]Val{rv}, args...), rt, pos)
						}
					}
				}
			}
		}
		if fc := fx.eng.db.Funcs[key]; fc != nil {
			return fx.applyContract(fr, st, fc, nil, recv, args, cc.Signature(), rt, pos, key)
		}
		if cc.Method.Name() == "Error" && len(args) == 0 {
			return fx.freshVal(rt, "errstr")
		}
		return fx.havocCall(fr, st, key, append([]Val{recv}, args...), rt, "interface method without contract")
	}
	callee := cc.StaticCallee()
	if callee == nil {
		// dynamic call through a function value
		fv := fx.val(fr, cc.Value)
		if t, ok := fv.(*Term); ok {
			if mc := fx.closures[t]; mc != nil {
				if fn, ok := mc.Fn.(*ssa.Function); ok {
					var bind []Val
					for _, b := range mc.Bindings {
						bind = append(bind, fx.val(fr, b))
					}
					_ = bind
					_ = fn
				}
			}
		}
		key := "dynamic call"
		if gk := globalFuncKey(cc); gk != "" {
			key = "function variable " + gk
			if fc := fx.eng.db.Funcs[gk]; fc != nil {
				fx.callSeq++
				return fx.applyContract(fr, st, fc, nil, nil, args, cc.Signature(), rt, pos, gk)
			}
		}
		if fa, ok := cc.Value.(*ssa.UnOp); ok {
			if f, ok := fa.X.(*ssa.FieldAddr); ok {
				pt := f.X.Type().Underlying().(*types.Pointer).Elem()
				key = "field " + typeKey(pt) + "." + under(pt).(*types.Struct).Field(f.Field).Name()
				ckey := typeKey(pt) + "." + under(pt).(*types.Struct).Field(f.Field).Name()
				if fc := fx.eng.db.Funcs[ckey]; fc != nil {
					return fx.applyContract(fr, st, fc, nil, nil, args, cc.Signature(), rt, pos, ckey)
				}
			}
		}
		return fx.havocCall(fr, st, key, args, rt, "call through function value")
	}
	if v, ok := fx.streamIntrinsic(fr, st, cc, callee, args, rt, pos); ok {
		return v
	}
	return fx.staticCall(fr, st, callee, args, rt, pos)
}

// streamIntrinsic models three standard-library calls whose effect depends on the DYNAMIC type of an interface argument,
// which a contract (keyed by function) cannot express, by rewriting them to typed pseudo-functions whose contracts are in
// the prelude (byte-stream model: sbyte / srange / spos):
//   binary.Read(r, binary.BigEndian, &x)  with x an 8/16/32/64-bit integer  ->  v, err := binary.readN(r); if err == nil { x = v }
//   binary.Write(w, binary.BigEndian, v)  with v an 8/16/32/64-bit integer  ->  err := binary.writeN(w, v)
//   io.CopyN(&b, r, n)                    with b a strings.Builder          ->  copied, err := io.copyNToBuilder(&b, r, n)
// Anything else about these functions (other byte orders, slices, structs) falls through to their ordinary contracts.
func (fx *FnExec) streamIntrinsic(fr *frame, st *State, cc *ssa.CallCommon, callee *ssa.Function, args []Val, rt types.Type, pos token.Pos) (Val, bool) {
	if callee.Pkg == nil {
		return nil, false
	}
	c := fx.c
	path, name := callee.Pkg.Pkg.Path(), callee.Name()
	mkSig := func(ps []*types.Var, rs []*types.Var) *types.Signature {
		return types.NewSignatureType(nil, nil, nil, types.NewTuple(ps...), types.NewTuple(rs...), false)
	}
	v := func(n string, t types.Type) *types.Var { return types.NewVar(token.NoPos, nil, n, t) }
	errT := types.Universe.Lookup("error").Type()
	uintOf := func(w int) types.Type {
		switch w {
		case 8:
			return types.Typ[types.Uint8]
		case 16:
			return types.Typ[types.Uint16]
		case 32:
			return types.Typ[types.Uint32]
		}
		return types.Typ[types.Uint64]
	}
	switch {
	case path == "encoding/binary" && (name == "Read" || name == "Write") && len(cc.Args) == 3:
		om, ok := cc.Args[1].(*ssa.MakeInterface)
		if !ok || typeKey(om.X.Type()) != "binary.bigEndian" {
			return nil, false
		}
		dm, ok := cc.Args[2].(*ssa.MakeInterface)
		if !ok {
			return nil, false
		}
		if name == "Read" {
			pt, ok := under(dm.X.Type()).(*types.Pointer)
			if !ok {
				return nil, false
			}
			w, _, isInt := intWidth(pt.Elem())
			if !isInt || isFloat(pt.Elem()) {
				return nil, false
			}
			key := fmt.Sprintf("binary.read%d", w)
			fc := fx.eng.db.Funcs[key]
			if fc == nil {
				return nil, false
			}
			ptr, ok := fx.val(fr, dm.X).(PtrV)
			if !ok {
				return nil, false
			}
			fx.callSeq++
			sig := mkSig([]*types.Var{v("r", cc.Args[0].Type())}, []*types.Var{v("v", uintOf(w)), v("err", errT)})
			res := fx.applyContract(fr, st, fc, nil, nil, []Val{args[0]}, sig, sig.Results(), pos, key)
			tv, ok := res.(TupleV)
			if !ok || len(tv) != 2 {
				fx.oos("binary.Read model: unexpected result shape")
			}
			ev, _ := tv[1].(IfaceV)
			isNil := c.Eq(ev.Tag, c.BVInt(0, 32))
			if nv, ok := tv[0].(*Term); ok {
				if cur, ok := fx.load(st, ptr).(*Term); ok && cur.Sort == nv.Sort {
					fx.store(st, ptr, c.Ite(isNil, nv, cur))
				} else {
					fx.store(st, ptr, nv)
				}
			}
			fx.note("binary.Read of a fixed-width integer in big-endian order is modelled as binary.readN (prelude) followed by the store of the value on success")
			return tv[1], true
		}
		w, _, isInt := intWidth(dm.X.Type())
		if !isInt || isFloat(dm.X.Type()) {
			return nil, false
		}
		key := fmt.Sprintf("binary.write%d", w)
		fc := fx.eng.db.Funcs[key]
		if fc == nil {
			return nil, false
		}
		val, ok := fx.val(fr, dm.X).(*Term)
		if !ok {
			return nil, false
		}
		fx.callSeq++
		sig := mkSig([]*types.Var{v("w", cc.Args[0].Type()), v("v", uintOf(w))}, []*types.Var{v("err", errT)})
		fx.note("binary.Write of a fixed-width integer in big-endian order is modelled as binary.writeN (prelude)")
		return fx.applyContract(fr, st, fc, nil, nil, []Val{args[0], val}, sig, errT, pos, key), true
	case path == "io" && name == "CopyN" && len(cc.Args) == 3:
		dm, ok := cc.Args[0].(*ssa.MakeInterface)
		if !ok || typeKey(dm.X.Type()) != "*strings.Builder" {
			return nil, false
		}
		key := "io.copyNToBuilder"
		fc := fx.eng.db.Funcs[key]
		if fc == nil {
			return nil, false
		}
		fx.callSeq++
		sig := mkSig([]*types.Var{v("b", dm.X.Type()), v("r", cc.Args[1].Type()), v("n", types.Typ[types.Int64])}, []*types.Var{v("copied", types.Typ[types.Int64]), v("err", errT)})
		fx.note("io.CopyN into a strings.Builder is modelled as io.copyNToBuilder (prelude)")
		return fx.applyContract(fr, st, fc, nil, nil, []Val{fx.val(fr, dm.X), args[1], args[2]}, sig, sig.Results(), pos, key), true
	}
	return nil, false
}

func ifaceMethodKey(t types.Type, method string) string {
	if n := namedOf(t); n != nil {
		p := ""
		if n.Obj().Pkg() != nil {
			p = n.Obj().Pkg().Name() + "."
		}
		return p + n.Obj().Name() + "." + method
	}
	return "interface." + method
}

func (fx *FnExec) staticCall(fr *frame, st *State, callee *ssa.Function, args []Val, rt types.Type, pos token.Pos) Val {
	c := fx.c
	key := funcKey(callee)
	path := pkgPathOf(callee)
	fx.callSeq++
	// synthetic wrappers and intrinsics
	switch callee.Name() {
	case "ssa:wrapnilchk":
		return args[0]
	}
	if callee.Synthetic != "" && len(callee.Blocks) > 0 && (strings.HasPrefix(callee.Synthetic, "wrapper") || strings.HasPrefix(callee.Synthetic, "bound") || strings.HasPrefix(callee.Synthetic, "thunk") || strings.HasPrefix(callee.Synthetic, "instance")) {
		if fr.depth < 12 {
			return fx.inlineCall(fr, st, callee, args, rt, pos)
		}
	}
	if fc := fx.eng.db.Funcs[key]; fc != nil && !(fc.Inline) {
		var recv Val
		a := args
		if callee.Signature.Recv() != nil {
			recv, a = args[0], args[1:]
		}
		return fx.applyContract(fr, st, fc, callee, recv, a, callee.Signature, rt, pos, key)
	}
	// logging and formatting
	switch path {
	case "github.com/sirupsen/logrus":
		n := callee.Name()
		if strings.HasPrefix(n, "Panic") || strings.HasPrefix(n, "Fatal") {
			fx.oblige(fr, st, "panic", pos, c.False(), "logrus."+n+" is unreachable")
			st.pc = c.False()
			return fx.zeroOrFresh(rt)
		}
		fx.note("logrus logging calls have no effect on program state and do not panic")
		return fx.freshResult(rt, "log", false)
	case "log":
		n := callee.Name()
		if strings.HasPrefix(n, "Panic") || strings.HasPrefix(n, "Fatal") {
			fx.oblige(fr, st, "panic", pos, c.False(), "log."+n+" is unreachable")
			st.pc = c.False()
			return fx.zeroOrFresh(rt)
		}
		return fx.freshResult(rt, "log", false)
	case "sync":
		return fx.syncCall(fr, st, callee, args, rt, pos)
	case "sync/atomic":
		// atomic cells are not tracked: reads are unconstrained, writes have no effect on the modelled heap
		fx.note("sync/atomic cells are not tracked: reads return unconstrained values, writes change nothing else")
		return fx.freshResult(rt, "atomic", false)
	}
	// explicit or automatic inlining of repo functions
	if fc := fx.eng.db.Funcs[key]; fc != nil && fc.Inline && len(callee.Blocks) > 0 && fr.depth < fx.eng.maxInline {
		return fx.inlineCall(fr, st, callee, args, rt, pos)
	}
	if fx.eng.autoInline(callee) && fr.depth < fx.eng.maxInline {
		return fx.inlineCall(fr, st, callee, args, rt, pos)
	}
	if pureStdlib(path, callee) {
		// value-level standard-library helpers (strings, strconv, net/url getters, ...): no effect on the
		// modelled heap; results unconstrained; assumed not to panic
		fx.note("standard-library value helpers (" + path + "): treated as pure functions with unconstrained results, assumed not to panic")
		return fx.freshResult(rt, "ret."+callee.Name(), true)
	}
	return fx.havocCall(fr, st, key, args, rt, "no contract")
}

// pureStdlib: package-level functions of value-oriented standard packages (not the Append* family, which
// writes into its first argument), and the getter methods of net/url's URL and Userinfo.
func pureStdlib(path string, callee *ssa.Function) bool {
	n := callee.Name()
	recv := callee.Signature.Recv()
	switch path {
	case "strings", "strconv", "unicode", "unicode/utf8", "math", "math/bits", "path", "path/filepath", "net/url":
		if recv == nil {
			return !strings.HasPrefix(n, "Append") && n != "NewReplacer" && n != "NewReader"
		}
		if path == "net/url" {
			switch n {
			case "String", "Hostname", "Port", "Username", "Password", "Redacted", "IsAbs", "Query", "RequestURI", "EscapedPath", "EscapedFragment":
				return true
			}
		}
	case "fmt":
		return recv == nil && (n == "Sprintf" || n == "Sprint" || n == "Sprintln" || n == "Errorf")
	case "net":
		return recv == nil && (n == "ParseIP" || n == "SplitHostPort" || n == "JoinHostPort" || n == "ParseCIDR")
	}
	return false
}

func (fx *FnExec) zeroOrFresh(rt types.Type) Val {
	if rt == nil {
		return nil
	}
	if tt, ok := rt.(*types.Tuple); ok && tt.Len() == 0 {
		return nil
	}
	return fx.freshVal(rt, "dead")
}

func (fx *FnExec) freshResult(rt types.Type, name string, nilable bool) Val {
	if rt == nil {
		return nil
	}
	if tt, ok := rt.(*types.Tuple); ok && tt.Len() == 0 {
		return nil
	}
	v := fx.freshVal(rt, name)
	if nilable {
		fx.markNilable(v)
	}
	return v
}

// havocCall: unknown callee — arguments escape, the whole heap is havoc'd,
// results are unconstrained (and possibly nil).
func (fx *FnExec) havocCall(fr *frame, st *State, key string, args []Val, rt types.Type, why string) Val {
	fx.frameWrite(fr, st, nil, token.NoPos, "call "+key+" (no contract, may modify anything)")
	if why != "" {
		fx.note(fmt.Sprintf("call to %s (%s): assumed to terminate without panicking; heap havoc'd, results unconstrained", key, why))
	}
	for _, a := range args {
		fx.escape(fr, st, a)
	}
	fx.havocAll(st)
	short := key
	if i := strings.LastIndexByte(short, '.'); i >= 0 {
		short = short[i+1:]
	}
	return fx.freshResult(rt, "ret."+short, true)
}

// ---- escape / private objects

type privInfo struct {
	t       types.Type // object type (struct/array) or element type for backing arrays
	backing bool
	box     bool
}

func (fx *FnExec) rootRef(r *Term) *Term {
	for r.Op == "app" && (strings.HasPrefix(r.Name, "sub|") || strings.HasPrefix(r.Name, "elem|")) {
		r = r.Args[0]
	}
	return r
}

func (fx *FnExec) escapeRef(st *State, r *Term) {
	if r == nil {
		return
	}
	if r.Op == "ite" {
		fx.escapeRef(st, r.Args[1])
		fx.escapeRef(st, r.Args[2])
		return
	}
	r = fx.rootRef(r)
	if _, ok := fx.private[r]; ok {
		pi := fx.private[r]
		delete(fx.private, r)
		// everything it points to escapes as well
		fx.escapeContents(st, pi, r)
	}
}

func (fx *FnExec) escapeContents(st *State, pi privInfo, r *Term) {
	defer func() {
		if e := recover(); e != nil {
			if _, ok := e.(oosError); !ok {
				panic(e)
			}
		}
	}()
	if pi.backing || pi.box {
		return
	}
	v := fx.loadObj(st, pi.t, r)
	fx.escape(nil, st, v)
}

func (fx *FnExec) escape(fr *frame, st *State, v Val) {
	switch x := v.(type) {
	case PtrV:
		if x.Ref != nil {
			fx.escapeRef(st, x.Ref)
		}
		if x.Kind == PLocal {
			// address of a local cell never escapes in the supported subset
		}
	case SliceV:
		fx.escapeRef(st, x.Ref)
	case IfaceV:
		fx.escapeRef(st, x.Ref)
	case StructV:
		for _, f := range x.F {
			fx.escape(fr, st, f)
		}
	case TupleV:
		for _, f := range x {
			fx.escape(fr, st, f)
		}
	case *Term:
		if x.Sort == RefSort {
			fx.escapeRef(st, x)
		}
	}
}

func (fx *FnExec) nextEpoch() int {
	fx.epoch++
	if os.Getenv("HOPVC_DEBUG_EPOCH") != "" {
		buf := make([]byte, 3000)
		n := runtime.Stack(buf, false)
		fmt.Fprintf(os.Stderr, "EPOCH %d\n%s\n", fx.epoch, buf[:n])
	}
	if fx.epochSerial == nil {
		fx.epochSerial = map[int]int{}
	}
	fx.epochSerial[fx.epoch] = len(fx.freshRefs)
	return fx.epoch
}

// havocAll forgets the whole heap except objects that are still private to
// this frame.
func (fx *FnExec) havocAll(st *State) {
	old := st.clone()
	st.heap = map[string]*Term{}
	st.epoch = fx.nextEpoch()
	// readonly globals keep their values: they are constants keyed without epoch
	var refs []*Term
	for r := range fx.private {
		refs = append(refs, r)
	}
	sort.Slice(refs, func(i, j int) bool { return refs[i].ID < refs[j].ID })
	for _, r := range refs {
		fx.copyObj(old, st, fx.private[r], r)
	}
	// ghost state is untouched by havoc (only contracts change it); so are fields declared stable
	// (written only by their constructor - a structural obligation of every check)
	for k, v := range old.heap {
		if strings.HasPrefix(k, "GF|") || fx.eng.isStableKey(k) {
			st.heap[k] = v
		}
	}
}

func (fx *FnExec) copyObj(from, to *State, pi privInfo, r *Term) {
	defer func() {
		if e := recover(); e != nil {
			if _, ok := e.(oosError); !ok {
				panic(e)
			}
		}
	}()
	c := fx.c
	if pi.box {
		for _, lf := range leavesOf(pi.t) {
			key := boxFamKey(pi.t, lf.name)
			s := ArrSort(RefSort, lf.sort)
			to.heap[key] = c.Store(fx.family(to, key, s), r, c.Select(fx.family(from, key, s), r))
		}
		return
	}
	if pi.backing {
		if isObjT(pi.t) {
			return
		}
		for _, lf := range leavesOf(pi.t) {
			key := elemFamKey(pi.t, lf.name)
			s := ArrSort(RefSort, ArrSort(BV(64), lf.sort))
			to.heap[key] = c.Store(fx.family(to, key, s), r, c.Select(fx.family(from, key, s), r))
		}
		return
	}
	switch u := under(pi.t).(type) {
	case *types.Struct:
		for i := 0; i < u.NumFields(); i++ {
			ft := u.Field(i).Type()
			if isObjT(ft) {
				fx.copyObj(from, to, privInfo{t: ft}, fx.subRef(pi.t, i, r))
				continue
			}
			for _, lf := range leavesOf(ft) {
				key := fieldFamKey(pi.t, i, lf.name)
				s := ArrSort(RefSort, lf.sort)
				to.heap[key] = c.Store(fx.family(to, key, s), r, c.Select(fx.family(from, key, s), r))
			}
		}
	case *types.Array:
		fx.copyObj(from, to, privInfo{t: u.Elem(), backing: true}, r)
	}
}

// ---- builtins

func (fx *FnExec) builtin(fr *frame, st *State, b *ssa.Builtin, cc *ssa.CallCommon, args []Val, rt types.Type, pos token.Pos) Val {
	c := fx.c
	switch b.Name() {
	case "len", "cap":
		switch x := args[0].(type) {
		case SliceV:
			if b.Name() == "len" {
				return x.Len
			}
			return x.Cap
		case StrV:
			return x.Len
		case PtrV:
			if at, ok := under(x.Elem).(*types.Array); ok {
				return fx.bv64(at.Len())
			}
		case *Term:
			if at, ok := under(cc.Args[0].Type()).(*types.Array); ok {
				return fx.bv64(at.Len())
			}
			// map or channel length: non-negative unknown
			n := c.Fresh("len", BV(64))
			fx.assumeGlobal(c.And(c.BVCmp("bvsle", fx.bv64(0), n), c.BVCmp("bvsle", n, c.BVConst(mask(maxLenBits), 64))))
			return n
		}
		fx.oos("len/cap of %T", args[0])
	case "copy":
		return fx.copyBuiltin(fr, st, cc, args)
	case "append":
		return fx.appendBuiltin(fr, st, cc, args)
	case "min", "max":
		w, signed, ok := intWidth(cc.Args[0].Type())
		if !ok {
			fx.oos("min/max on %s", cc.Args[0].Type())
		}
		_ = w
		r := args[0].(*Term)
		for _, a := range args[1:] {
			t := a.(*Term)
			op := "bvult"
			if signed {
				op = "bvslt"
			}
			var cond *Term
			if b.Name() == "min" {
				cond = c.BVCmp(op, t, r)
			} else {
				cond = c.BVCmp(op, r, t)
			}
			r = c.Ite(cond, t, r)
		}
		return r
	case "delete":
		fx.mapDelete(fr, st, cc, args)
		return nil
	case "clear":
		fx.havocAll(st)
		return nil
	case "close":
		fx.drop("channel close (closed-state not modelled)")
		return nil
	case "print", "println":
		return nil
	case "recover":
		fx.drop("recover()")
		return fx.freshVal(rt, "recover")
	case "ssa:wrapnilchk":
		return args[0]
	case "ssa:deferstack":
		return c.Fresh("deferstack", RefSort)
	case "panic":
		fx.oblige(fr, st, "panic", pos, c.False(), "explicit panic is unreachable")
		st.pc = c.False()
		return nil
	case "new":
		fx.oos("builtin new as value")
	}
	fx.oos("builtin %s", b.Name())
	return nil
}

func (fx *FnExec) copyBuiltin(fr *frame, st *State, cc *ssa.CallCommon, args []Val) Val {
	c := fx.c
	dst := args[0].(SliceV)
	et := under(cc.Args[0].Type()).(*types.Slice).Elem()
	var sarr func() *Term
	var soff, slen *Term
	var srcRef *Term
	switch s := args[1].(type) {
	case SliceV:
		soff, slen = s.Off, s.Len
		srcRef = s.Ref
		sarr = func() *Term { return fx.elemArray(st, et, s.Ref) }
	case StrV:
		soff, slen = s.Off, s.Len
		sarr = func() *Term { return s.Arr }
	default:
		fx.oos("copy from %T", args[1])
	}
	n := c.Ite(c.BVCmp("bvslt", slen, dst.Len), slen, dst.Len)
	fx.frameWrite(fr, st, dst.Ref, cc.Pos(), "copy into memory that existed before the call")
	if es := singleSort(et); es == nil || isElemObj(et) {
		// composite elements: destination contents unconstrained
		fx.drop("copy of slices with composite elements (destination contents unconstrained)")
		fx.havocBacking(st, et, dst.Ref)
		return n
	}
	_ = srcRef
	src := sarr()
	darr := fx.elemArray(st, et, dst.Ref)
	var narr *Term
	if n.Op == "bv" && n.Val.IsInt64() && n.Val.Int64() <= 64 {
		narr = darr
		for k := int64(0); k < n.Val.Int64(); k++ {
			narr = c.Store(narr, c.BVBin("bvadd", dst.Off, fx.bv64(k)), c.Select(src, c.BVBin("bvadd", soff, fx.bv64(k))))
		}
	} else {
		narr = c.Fresh("copy", darr.Sort)
		k := c.BoundVar("k", BV(64))
		rel := c.BVBin("bvsub", k, dst.Off)
		in := c.BVCmp("bvult", rel, n)
		fx.assumeGlobal(c.Forall([]*Term{k}, c.Eq(c.Select(narr, k), c.Ite(in, c.Select(src, c.BVBin("bvadd", soff, rel)), c.Select(darr, k)))))
	}
	fx.setElemArray(st, et, dst.Ref, narr)
	if narr.Sort == byteArr && narr.Op == "const" {
		if fx.arrOrigins == nil {
			fx.arrOrigins = map[*Term]arrOrigin{}
		}
		fx.arrOrigins[narr] = arrOrigin{src: src, soff: soff, srcRef: srcRef, old: darr, doff: dst.Off, n: n}
	}
	fx.curPC = st.pc
	fx.arrayUpdated(darr, narr, dst.Off, n)
	if src.Sort == byteArr {
		// the copied window denotes the same abstract byte string as its source
		fx.assumeGlobal(c.Eq(fx.rngTermRef(narr, dst.Off, n, dst.Ref), fx.rngTermRef(src, soff, n, srcRef)))
	}
	return n
}

func (fx *FnExec) havocBacking(st *State, et types.Type, ref *Term) {
	if isElemObj(et) {
		tf := map[string]bool{}
		fx.typeFamilies(et, tf)
		for p := range tf {
			fx.havocFamilyPrefix(st, p)
		}
		return
	}
	for _, lf := range leavesOf(et) {
		key := elemFamKey(et, lf.name)
		s := ArrSort(RefSort, ArrSort(BV(64), lf.sort))
		fx.setFamily(st, key, fx.c.Store(fx.family(st, key, s), ref, fx.c.Fresh("havoc", ArrSort(BV(64), lf.sort))))
	}
}

func (fx *FnExec) havocFamilyPrefix(st *State, prefix string) {
	for key, s := range fx.famSort {
		if strings.HasPrefix(key, prefix) {
			st.heap[key] = fx.c.Fresh("havoc|"+key, s)
		}
	}
}

func (fx *FnExec) appendBuiltin(fr *frame, st *State, cc *ssa.CallCommon, args []Val) Val {
	c := fx.c
	s := args[0].(SliceV)
	et := under(cc.Args[0].Type()).(*types.Slice).Elem()
	var tlen, toff *Term
	var tarr func() *Term
	switch t := args[1].(type) {
	case SliceV:
		tlen, toff = t.Len, t.Off
		tarr = func() *Term { return fx.elemArray(st, et, t.Ref) }
	case StrV:
		tlen, toff = t.Len, t.Off
		tarr = func() *Term { return t.Arr }
	default:
		fx.oos("append of %T", args[1])
	}
	newLen := c.BVBin("bvadd", s.Len, tlen)
	inplace := c.BVCmp("bvsle", newLen, s.Cap)
	if fx.pureMode && !fx.isFreshRef(s.Ref) {
		s2 := st.clone()
		s2.pc = c.And(st.pc, inplace, c.BVCmp("bvslt", fx.bv64(0), tlen))
		fx.frameWrite(fr, s2, s.Ref, cc.Pos(), "append in place into memory that existed before the call")
	}
	nr := fx.newRef("append")
	ncap := c.Fresh("append.cap", BV(64))
	fx.assumeGlobal(c.And(c.BVCmp("bvsle", newLen, ncap), c.BVCmp("bvsle", ncap, c.BVConst(mask(maxLenBits), 64))))
	fx.assumeGlobal(c.BVCmp("bvsle", newLen, c.BVConst(mask(maxLenBits), 64)))
	fx.assumeGlobal(c.Eq(c.App("alen", BV(64), nr), ncap))
	res := SliceV{c.Ite(inplace, s.Ref, nr), c.Ite(inplace, s.Off, fx.bv64(0)), newLen, c.Ite(inplace, s.Cap, ncap)}
	fx.private[nr] = privInfo{t: et, backing: true}
	if tsl, isSl := args[1].(SliceV); isSl && isStructT(et) && tlen.Op == "bv" && tlen.Val.IsInt64() && tlen.Val.Int64() <= 4 {
		if fx.appendStructs(st, et, s, tsl, int(tlen.Val.Int64()), nr, inplace) {
			return res
		}
	}
	if es := singleSort(et); es == nil || isElemObj(et) {
		fx.drop("append on slices with composite elements (appended contents unconstrained)")
		// element contents: copy unknown; havoc the target backing arrays
		if !isElemObj(et) {
			fx.havocBacking(st, et, res.Ref)
		} else {
			tf := map[string]bool{}
			fx.typeFamilies(et, tf)
			for p := range tf {
				fx.havocFamilyPrefix(st, p)
			}
		}
		return res
	}
	sarr := fx.elemArray(st, et, s.Ref)
	ta := tarr()
	// in-place contents
	a1 := c.Fresh("append.in", sarr.Sort)
	k := c.BoundVar("k", BV(64))
	start := c.BVBin("bvadd", s.Off, s.Len)
	rel := c.BVBin("bvsub", k, start)
	fx.assumeGlobal(c.Forall([]*Term{k}, c.Eq(c.Select(a1, k), c.Ite(c.BVCmp("bvult", rel, tlen), c.Select(ta, c.BVBin("bvadd", toff, rel)), c.Select(sarr, k)))))
	// fresh contents
	a2 := c.Fresh("append.new", sarr.Sort)
	k2 := c.BoundVar("k", BV(64))
	rel2 := c.BVBin("bvsub", k2, s.Len)
	fx.assumeGlobal(c.Forall([]*Term{k2}, c.Implies(c.BVCmp("bvult", k2, newLen), c.Eq(c.Select(a2, k2), c.Ite(c.BVCmp("bvult", k2, s.Len), c.Select(sarr, c.BVBin("bvadd", s.Off, k2)), c.Select(ta, c.BVBin("bvadd", toff, rel2)))))))
	key := elemFamKey(et, "")
	fam := fx.family(st, key, ArrSort(RefSort, sarr.Sort))
	fx.setFamily(st, key, c.Ite(inplace, c.Store(fam, s.Ref, a1), c.Store(fam, nr, a2)))
	if sarr.Sort == byteArr {
		// abstract byte strings: the appended window denotes the source's bytes, the old window is kept
		fx.curPC = st.pc
		fx.assumeGlobal(c.Eq(fx.rngTerm(a1, start, tlen), fx.rngTerm(ta, toff, tlen)))
		fx.assumeGlobal(c.Eq(fx.rngTerm(a2, s.Len, tlen), fx.rngTerm(ta, toff, tlen)))
		fx.assumeGlobal(c.Eq(fx.rngTerm(a2, fx.bv64(0), s.Len), fx.rngTerm(sarr, s.Off, s.Len)))
		fx.arrayUpdated(sarr, a1, start, tlen)
	}
	return res
}

// ---- sync

func (fx *FnExec) syncCall(fr *frame, st *State, callee *ssa.Function, args []Val, rt types.Type, pos token.Pos) Val {
	n := callee.Name()
	recvName := ""
	if r := callee.Signature.Recv(); r != nil {
		if nm := namedOf(r.Type()); nm != nil {
			recvName = nm.Obj().Name()
		}
	}
	switch recvName {
	case "Mutex", "RWMutex":
		key := ""
		if p, ok := args[0].(PtrV); ok && p.Ref != nil {
			key = fx.c.Show(p.Ref)
		}
		switch n {
		case "Lock", "RLock":
			if fx.atomicLocks {
				// contract option `atomic`: the body is one critical section, verified as a sequential
				// atomic action whose pre-state is the state at lock acquisition
				fx.note("atomic: lock acquisition does not havoc the heap (the function is verified as an atomic action over the state at acquisition; interference before the lock is taken is outside the contract)")
				st.held[key] = fx.c.True()
				return nil
			}
			fx.frameWrite(fr, st, nil, pos, "acquire a lock")
			fx.note("sync.Mutex: acquiring a lock havocs the shared heap (other goroutines may have run); critical sections are reasoned about sequentially")
			fx.havocAll(st)
			st.held[key] = fx.c.True()
			return nil
		case "Unlock", "RUnlock":
			st.held[key] = fx.c.False()
			return nil
		case "TryLock", "TryRLock":
			fx.havocAll(st)
			return fx.c.Fresh("trylock", BoolSort)
		}
	case "WaitGroup", "Once", "Cond", "Pool", "Map":
		if recvName == "WaitGroup" && (n == "Add" || n == "Done") {
			// counter bookkeeping: does not block, touches only the WaitGroup's own (unmodelled) state
			fx.note("sync.WaitGroup.Add/Done: counter bookkeeping, no effect on the modelled heap (a negative counter panic is not modelled)")
			return nil
		}
		fx.note("sync." + recvName + " operations: heap havoc'd")
		return fx.havocCall(fr, st, "sync."+recvName+"."+n, args, rt, "")
	}
	return fx.havocCall(fr, st, "sync."+recvName+"."+n, args, rt, "sync primitive")
}

func (fx *FnExec) lockKey(e *CEnv, x *CExpr) string {
	v := e.Eval(x)
	if p, ok := v.V.(PtrV); ok && p.Ref != nil {
		return fx.c.Show(p.Ref)
	}
	return exprString(x)
}

// ---- deferred calls

func (fx *FnExec) callDeferred(fr *frame, st *State, d *ssa.Defer) {
	cc := &d.Call
	args := fx.deferArgs[d]
	var rt types.Type = cc.Signature().Results()
	if b, ok := cc.Value.(*ssa.Builtin); ok {
		fx.builtin(fr, st, b, cc, args, rt, d.Pos())
		return
	}
	if cc.IsInvoke() {
		fx.havocCall(fr, st, "deferred "+cc.Method.Name(), args, rt, "deferred interface call")
		return
	}
	if callee := cc.StaticCallee(); callee != nil {
		if len(callee.Blocks) > 0 && callee.Parent() != nil {
			// deferred closure: its body runs at function exit with access to the frame's variables
			if _, ok := cc.Value.(*ssa.MakeClosure); ok {
				fx.note("deferred closure " + callee.Name() + ": heap havoc'd at exit, body not executed in this frame")
			}
		}
		var a []Val
		for i, x := range args {
			a = append(a, fx.coerce(x, cc.Args[i].Type()))
		}
		fx.staticCall(fr, st, callee, a, rt, d.Pos())
		return
	}
	fx.havocCall(fr, st, "deferred dynamic call", args, rt, "deferred call through function value")
}

// ---- maps: (dom, val) families per map type when key and value have simple shapes

func mapTypeKey(t types.Type) string { return typeKey(under(t)) }

// mapKeySort: SMT sort used for keys of this Go type (nil: unsupported, map stays abstract).
func mapKeySort(k types.Type) *Sort {
	if w, _, ok := intWidth(k); ok && !isFloat(k) {
		return BV(w)
	}
	if isBoolT(k) {
		return BoolSort
	}
	if isStringT(k) {
		return UnintSort("StrKey")
	}
	switch u := under(k).(type) {
	case *types.Pointer:
		return RefSort
	case *types.Array:
		if b, ok := under(u.Elem()).(*types.Basic); ok && b.Kind() == types.Uint8 && u.Len() <= 64 && u.Len() > 0 {
			return BV(int(8 * u.Len()))
		}
	}
	return nil
}

func (fx *FnExec) mapModelled(mt *types.Map) bool {
	if mapKeySort(mt.Key()) == nil {
		return false
	}
	if isObjT(mt.Elem()) {
		return false
	}
	return leavesOf(mt.Elem()) != nil
}

// mapKeyTerm converts a key value to its SMT key term.
func (fx *FnExec) mapKeyTerm(st *State, kt types.Type, v Val) *Term {
	c := fx.c
	switch x := v.(type) {
	case *Term:
		if at, ok := under(kt).(*types.Array); ok {
			return fx.packBytes(x, at.Len())
		}
		return x
	case PtrV:
		if at, ok := under(kt).(*types.Array); ok && x.Kind == PObj {
			_ = at
			return fx.mapKeyTerm(st, kt, fx.loadObj(st, kt, x.Ref))
		}
		return fx.ptrRef(x)
	case StrV:
		return c.App("strkey", UnintSort("StrKey"), x.Arr, x.Off, x.Len)
	}
	fx.oos("map key of shape %T", v)
	return nil
}

func (fx *FnExec) mapDom(st *State, mt *types.Map) (string, *Term) {
	key := "MD|" + mapTypeKey(mt)
	return key, fx.family(st, key, ArrSort(RefSort, ArrSort(mapKeySort(mt.Key()), BoolSort)))
}

func (fx *FnExec) mapValFam(st *State, mt *types.Map, lf leaf) (string, *Term) {
	key := "MV|" + mapTypeKey(mt) + "|" + lf.name
	return key, fx.family(st, key, ArrSort(RefSort, ArrSort(mapKeySort(mt.Key()), lf.sort)))
}

// mapRead returns (present, stored value) for m[k].
func (fx *FnExec) mapRead(st *State, mt *types.Map, m, k *Term) (*Term, Val) {
	c := fx.c
	_, dom := fx.mapDom(st, mt)
	ok := c.And(c.Not(c.Eq(m, fx.nilRef())), c.Select(c.Select(dom, m), k))
	var ls []*Term
	for _, lf := range leavesOf(mt.Elem()) {
		_, vf := fx.mapValFam(st, mt, lf)
		ls = append(ls, c.Select(c.Select(vf, m), k))
	}
	return ok, fx.fromLeaves(mt.Elem(), ls, true)
}

func (fx *FnExec) mapLookup(fr *frame, st *State, x *ssa.Lookup) Val {
	c := fx.c
	mt := x.X.Type().Underlying().(*types.Map)
	if fx.mapModelled(mt) {
		m := fx.val(fr, x.X).(*Term)
		k := fx.mapKeyTerm(st, mt.Key(), fx.val(fr, x.Index))
		ok, v := fx.mapRead(st, mt, m, k)
		if why, nn := fx.eng.db.NonNilMaps[mapTypeKey(mt)]; nn {
			if pv, isP := v.(PtrV); isP && pv.Ref != nil {
				fx.assumeGlobal(c.Implies(ok, c.Not(c.Eq(pv.Ref, fx.nilRef()))))
				fx.note("map invariant: values stored in " + mapTypeKey(mt) + " are non-nil (" + why + ")")
			} else if tv, isT := v.(*Term); isT && tv.Sort == RefSort {
				fx.assumeGlobal(c.Implies(ok, c.Not(c.Eq(tv, fx.nilRef()))))
				fx.note("map invariant: values stored in " + mapTypeKey(mt) + " are non-nil (" + why + ")")
			}
		} else {
			fx.markNilable(v)
		}
		res := fx.mergeVal(ok, v, fx.zeroVal(mt.Elem()))
		if x.CommaOk {
			return TupleV{res, ok}
		}
		return res
	}
	fx.drop("map lookup on " + mapTypeKey(mt) + " (result unconstrained: any value, present or absent)")
	v := fx.freshVal(mt.Elem(), "maplookup")
	fx.markNilable(v)
	ok := c.Fresh("mapok", BoolSort)
	// absent key yields the zero value
	z := fx.zeroVal(mt.Elem())
	v = fx.mergeVal(ok, v, z)
	fx.markNilable(v)
	if x.CommaOk {
		return TupleV{v, ok}
	}
	return v
}

func (fx *FnExec) mapUpdate(fr *frame, st *State, x *ssa.MapUpdate, m *Term) {
	c := fx.c
	val := fx.val(fr, x.Value)
	fx.escape(fr, st, val)
	fx.escape(fr, st, fx.val(fr, x.Key))
	fx.frameWrite(fr, st, m, x.Pos(), "update a map that existed before the call")
	fx.mapWrites = append(fx.mapWrites, mapWrite{pc: st.pc, typ: typeKey(x.Map.Type()), pos: fx.posOf(fr, x.Pos()), m: m})
	mt := x.Map.Type().Underlying().(*types.Map)
	if !fx.mapModelled(mt) {
		return
	}
	k := fx.mapKeyTerm(st, mt.Key(), fx.val(fr, x.Key))
	dk, dom := fx.mapDom(st, mt)
	fx.setFamily(st, dk, c.Store(dom, m, c.Store(c.Select(dom, m), k, c.True())))
	lvs := fx.toLeaves(mt.Elem(), fx.coerce(val, mt.Elem()))
	for i, lf := range leavesOf(mt.Elem()) {
		vk, vf := fx.mapValFam(st, mt, lf)
		fx.setFamily(st, vk, c.Store(vf, m, c.Store(c.Select(vf, m), k, lvs[i])))
	}
}

func (fx *FnExec) mapDelete(fr *frame, st *State, cc *ssa.CallCommon, args []Val) {
	c := fx.c
	m, _ := args[0].(*Term)
	fx.frameWrite(fr, st, m, cc.Pos(), "delete from a map that existed before the call")
	fx.mapWrites = append(fx.mapWrites, mapWrite{pc: st.pc, typ: typeKey(cc.Args[0].Type()), pos: fx.posOf(fr, cc.Pos()), m: m, del: true})
	mt := cc.Args[0].Type().Underlying().(*types.Map)
	if !fx.mapModelled(mt) || m == nil {
		return
	}
	k := fx.mapKeyTerm(st, mt.Key(), args[1])
	dk, dom := fx.mapDom(st, mt)
	fx.setFamily(st, dk, c.Store(dom, m, c.Store(c.Select(dom, m), k, c.False())))
}

type mapWrite struct {
	pc  *Term
	typ string
	pos string
	m   *Term
	del bool
}

// ---- loops' call effects

// callEffects summarises what a call inside a loop may change.
func (fx *FnExec) callEffects(fr *frame, cc *ssa.CallCommon, li *loopInfo, addrEffect func(ssa.Value)) {
	out := li.modFam
	if b, ok := cc.Value.(*ssa.Builtin); ok {
		switch b.Name() {
		case "copy", "append":
			et := under(cc.Args[0].Type()).(*types.Slice).Elem()
			if isElemObj(et) {
				fx.typeFamilies(et, out)
			} else {
				out["M|"+typeKey(et)+"|"] = true
			}
		case "delete":
			out["MD|"+mapTypeKey(cc.Args[0].Type())] = true
		case "clear":
			out["*"] = true
		}
		return
	}
	var fc *FuncContract
	var callee *ssa.Function
	if cc.IsInvoke() {
		fc = fx.eng.db.Funcs[ifaceMethodKey(cc.Value.Type(), cc.Method.Name())]
	} else {
		callee = cc.StaticCallee()
		if callee == nil {
			if gk := globalFuncKey(cc); gk != "" && fx.eng.db.Funcs[gk] != nil {
				fc = fx.eng.db.Funcs[gk]
				if fc.Pure {
					return
				}
			}
			out["*"] = true
			return
		}
		switch pkgPathOf(callee) {
		case "github.com/sirupsen/logrus", "log":
			return
		}
		if callee.Name() == "ssa:wrapnilchk" {
			return
		}
		fc = fx.eng.db.Funcs[funcKey(callee)]
	}
	if fc != nil && fc.Pure {
		return
	}
	if fc != nil && !fc.Inline && !fc.ModAll && len(fc.Modifies) > 0 {
		// map contract names to argument values
		argOf := map[string]ssa.Value{}
		args := cc.Args
		if cc.IsInvoke() {
			argOf[fc.Recv] = cc.Value
		} else if callee != nil && callee.Signature.Recv() != nil && len(args) > 0 {
			argOf[fc.Recv] = args[0]
			args = args[1:]
		}
		for i, n := range fc.Params {
			if i < len(args) {
				argOf[n] = args[i]
			}
		}
		for _, m := range fc.Modifies {
			fx.modifiesEffect(m.Expr, argOf, li, addrEffect)
		}
		return
	}
	if callee != nil && (fx.eng.autoInline(callee) || (fc != nil && fc.Inline)) {
		// effects of the inlined body (conservative: by family)
		for _, b := range callee.Blocks {
			for _, ins := range b.Instrs {
				switch x := ins.(type) {
				case *ssa.Store:
					if a, ok := x.Addr.(*ssa.Alloc); ok && fx.isLocalCell(a) {
						continue
					}
					if root := rootAlloc(x.Addr); root != nil && !allocEscapes(root) {
						continue
					}
					fx.storeFamilies(x.Addr, out)
				case *ssa.Alloc:
					if !fx.isLocalCell(x) && allocEscapes(x) {
						fx.typeFamilies(x.Type().(*types.Pointer).Elem(), out)
					}
				case *ssa.Call:
					fx.callEffects(fr, x.Common(), li, func(v ssa.Value) { fx.storeFamilies(v, out) })
				case *ssa.MapUpdate:
					out["MD|"+mapTypeKey(x.Map.Type())] = true
					out["MV|"+mapTypeKey(x.Map.Type())+"|"] = true
				}
			}
		}
		return
	}
	out["*"] = true
}

// modifiesEffect maps one modifies target of a callee contract to the loop summary.
func (fx *FnExec) modifiesEffect(x *CExpr, argOf map[string]ssa.Value, li *loopInfo, addrEffect func(ssa.Value)) {
	out := li.modFam
	base := x
	for base.Op == "paren" {
		base = base.Args[0]
	}
	switch base.Op {
	case "call":
		if base.Name == "opaque" {
			return
		}
		if base.Name == "mapof" {
			// which map type? resolve statically when the argument is  param.field  or  param.field[...]
			out["MD|"] = true
			out["MV|"] = true
			return
		}
	case "ident":
		if _, ok := fx.eng.ghostTypes[base.Name]; ok {
			li.modGhost[base.Name] = true
			return
		}
		if v, ok := argOf[base.Name]; ok {
			// pointer or slice argument modified as a whole
			switch u := v.Type().Underlying().(type) {
			case *types.Pointer:
				if root := rootAlloc(v); root != nil && !fx.isLocalCell(root) && !li.body[root.Block()] {
					li.modObj[root] = true
					return
				}
				if isObjT(u.Elem()) {
					fx.typeFamilies(u.Elem(), out)
				} else {
					out["B|"+typeKey(u.Elem())+"|"] = true
				}
				return
			case *types.Slice:
				if isElemObj(u.Elem()) {
					fx.typeFamilies(u.Elem(), out)
				} else {
					out["M|"+typeKey(u.Elem())+"|"] = true
				}
				return
			}
		}
	case "un":
		if base.Name == "*" {
			fx.modifiesEffect(base.Args[0], argOf, li, addrEffect)
			return
		}
	case "slice", "index":
		fx.modifiesEffect(base.Args[0], argOf, li, addrEffect)
		return
	case "field":
		if strings.HasPrefix(base.Name, "gh_") {
			return // ghost fields live outside the program heap (and are not havoc'd by loops)
		}
		if base.Name == "*" {
			fx.modifiesEffect(base.Args[0], argOf, li, addrEffect)
			return
		}
		if b0 := base.Args[0]; b0.Op == "ident" {
			if v, ok := argOf[b0.Name]; ok {
				if p, ok := v.Type().Underlying().(*types.Pointer); ok {
					if st, ok := under(p.Elem()).(*types.Struct); ok {
						for i := 0; i < st.NumFields(); i++ {
							if st.Field(i).Name() == base.Name {
								if root := rootAlloc(v); root != nil && !fx.isLocalCell(root) && !li.body[root.Block()] {
									li.modObj[root] = true
									return
								}
								ft := st.Field(i).Type()
								if isObjT(ft) {
									fx.typeFamilies(ft, out)
								} else {
									out["F|"+typeKey(p.Elem())+"|"+base.Name+"|"] = true
									// a slice-typed field modified means its header; contents need s[..]
								}
								return
							}
						}
					}
				}
			}
		}
	}
	out["*"] = true
}

// globalFuncKey: a call through a package-level function variable (e.g. thunks.TimeNow) is keyed pkg.Var.
func globalFuncKey(cc *ssa.CallCommon) string {
	if u, ok := cc.Value.(*ssa.UnOp); ok && u.Op == token.MUL {
		if g, ok := u.X.(*ssa.Global); ok && g.Pkg != nil {
			return g.Pkg.Pkg.Name() + "." + g.Name()
		}
	}
	return ""
}

// ---- append of struct elements (elements are sub-objects elem|T(ref, idx))

type leafPath struct {
	key  string
	sort *Sort
	at   func(base *Term) *Term // reference under which the leaf is stored, given the element's reference
	syms [][2]interface{}       // interior function symbols used by at (name, arity)
}

// leafPaths lists every heap leaf an object of type t occupies.
func (fx *FnExec) leafPaths(t types.Type, at func(*Term) *Term, out *[]leafPath) bool {
	switch u := under(t).(type) {
	case *types.Struct:
		for i := 0; i < u.NumFields(); i++ {
			ft := u.Field(i).Type()
			idx := i
			if isObjT(ft) {
				sub := func(b *Term) *Term { return fx.subRef(t, idx, at(b)) }
				if !fx.leafPaths(ft, sub, out) {
					return false
				}
				continue
			}
			lvs := leavesOf(ft)
			if lvs == nil {
				return false
			}
			for _, lf := range lvs {
				*out = append(*out, leafPath{key: fieldFamKey(t, idx, lf.name), sort: ArrSort(RefSort, lf.sort), at: at})
			}
		}
		return true
	case *types.Array:
		et := u.Elem()
		if isElemObj(et) {
			return false
		}
		for _, lf := range leavesOf(et) {
			*out = append(*out, leafPath{key: elemFamKey(et, lf.name), sort: ArrSort(RefSort, ArrSort(BV(64), lf.sort)), at: at})
		}
		return true
	}
	return false
}

// appendStructs models append(s, t...) for struct elements and a constant number n of appended
// elements: in place the new elements are written after s; otherwise every leaf family gets a
// fresh version that agrees with the old one outside the new backing array nr, copies the
// elements of s, and holds the appended ones.
func (fx *FnExec) appendStructs(st *State, et types.Type, s, t SliceV, n int, nr, inplace *Term) bool {
	c := fx.c
	var paths []leafPath
	if !fx.leafPaths(et, func(b *Term) *Term { return b }, &paths) {
		return false
	}
	// symbol-level axioms for the interior references formed under the quantifiers below
	fx.interiorAxioms("elem|"+typeKey(et), 2)
	probe := fx.elemRef(et, nr, fx.bv64(0))
	var collect func(r *Term)
	for _, p := range paths {
		r := p.at(probe)
		collect = func(r *Term) {
			if r.Op == "app" && strings.HasPrefix(r.Name, "sub|") {
				fx.interiorAxioms(r.Name, 1)
				collect(r.Args[0])
			}
		}
		collect(r)
	}
	seenKey := map[string]bool{}
	for _, p := range paths {
		// several leaves may live in one family (e.g. two [N]byte fields in M|uint8|): handle a family once,
		// with all the paths that fall into it
		if seenKey[p.key] {
			continue
		}
		seenKey[p.key] = true
		var same []leafPath
		for _, q := range paths {
			if q.key == p.key {
				same = append(same, q)
			}
		}
		old := fx.family(st, p.key, p.sort)
		// in place
		inpl := old
		for k := 0; k < n; k++ {
			dst := fx.elemRef(et, s.Ref, c.BVBin("bvadd", c.BVBin("bvadd", s.Off, s.Len), fx.bv64(int64(k))))
			src := fx.elemRef(et, t.Ref, c.BVBin("bvadd", t.Off, fx.bv64(int64(k))))
			for _, q := range same {
				inpl = c.Store(inpl, q.at(dst), c.Select(old, q.at(src)))
			}
		}
		// fresh backing array
		fresh := c.Fresh("append|"+p.key, p.sort)
		r := c.BoundVarNamed(fmt.Sprintf("r@app.%d", fresh.ID), RefSort)
		fx.assumeGlobal(c.Forall([]*Term{r}, c.Implies(c.Not(c.Eq(c.App("rootOf", RefSort, r), nr)), c.Eq(c.Select(fresh, r), c.Select(old, r))), []*Term{c.Select(fresh, r)}))
		i := c.BoundVarNamed(fmt.Sprintf("i@app.%d", fresh.ID), BV(64))
		for _, q := range same {
			dst := q.at(fx.elemRef(et, nr, i))
			src := q.at(fx.elemRef(et, s.Ref, c.BVBin("bvadd", s.Off, i)))
			fx.assumeGlobal(c.Forall([]*Term{i}, c.Implies(c.BVCmp("bvult", i, s.Len), c.Eq(c.Select(fresh, dst), c.Select(old, src))), []*Term{c.Select(fresh, dst)}))
		}
		for k := 0; k < n; k++ {
			dst := fx.elemRef(et, nr, c.BVBin("bvadd", s.Len, fx.bv64(int64(k))))
			src := fx.elemRef(et, t.Ref, c.BVBin("bvadd", t.Off, fx.bv64(int64(k))))
			for _, q := range same {
				fx.assumeGlobal(c.Eq(c.Select(fresh, q.at(dst)), c.Select(old, q.at(src))))
			}
		}
		fx.setFamily(st, p.key, c.Ite(inplace, inpl, fresh))
	}
	return true
}

// fieldFuncKey: a call through a function-typed struct field is keyed pkg.Type.field.
func fieldFuncKey(cc *ssa.CallCommon) string {
	if fa, ok := cc.Value.(*ssa.UnOp); ok && fa.Op == token.MUL {
		if f, ok := fa.X.(*ssa.FieldAddr); ok {
			pt := f.X.Type().Underlying().(*types.Pointer).Elem()
			return typeKey(pt) + "." + under(pt).(*types.Struct).Field(f.Field).Name()
		}
	}
	return ""
}

// streamIntrinsicStatic is the static (SSA-level) part of streamIntrinsic's matching, shared with the frame scanner:
// the pseudo-function key, the SSA values standing for its parameters, and (binary.Read) the pointer written through.
func streamIntrinsicStatic(cc *ssa.CallCommon, callee *ssa.Function) (key string, params []ssa.Value, target ssa.Value) {
	if callee == nil || callee.Pkg == nil {
		return "", nil, nil
	}
	path, name := callee.Pkg.Pkg.Path(), callee.Name()
	switch {
	case path == "encoding/binary" && (name == "Read" || name == "Write") && len(cc.Args) == 3:
		om, ok := cc.Args[1].(*ssa.MakeInterface)
		if !ok || typeKey(om.X.Type()) != "binary.bigEndian" {
			return "", nil, nil
		}
		dm, ok := cc.Args[2].(*ssa.MakeInterface)
		if !ok {
			return "", nil, nil
		}
		if name == "Read" {
			pt, ok := under(dm.X.Type()).(*types.Pointer)
			if !ok {
				return "", nil, nil
			}
			w, _, isInt := intWidth(pt.Elem())
			if !isInt || isFloat(pt.Elem()) {
				return "", nil, nil
			}
			return fmt.Sprintf("binary.read%d", w), []ssa.Value{cc.Args[0]}, dm.X
		}
		w, _, isInt := intWidth(dm.X.Type())
		if !isInt || isFloat(dm.X.Type()) {
			return "", nil, nil
		}
		return fmt.Sprintf("binary.write%d", w), []ssa.Value{cc.Args[0], dm.X}, nil
	case path == "io" && name == "CopyN" && len(cc.Args) == 3:
		dm, ok := cc.Args[0].(*ssa.MakeInterface)
		if !ok || typeKey(dm.X.Type()) != "*strings.Builder" {
			return "", nil, nil
		}
		return "io.copyNToBuilder", []ssa.Value{dm.X, cc.Args[1], cc.Args[2]}, nil
	}
	return "", nil, nil
}
