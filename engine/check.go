package main

// Discharging obligations, verdicts, evidence.

import (
	"encoding/json"
	"fmt"
	"os"
	"path/filepath"
	"sort"
	"strconv"
	"strings"
	"sync"
	"time"
)

type PropConfig struct {
	ID       string   `json:"id"`
	Packages []string `json:"packages"`
	// Verify: functions verified against their contract (plus body safety).
	Verify []string `json:"verify"`
	// Sweep: functions checked for panic-freedom only (zero-annotation sweep).
	Sweep []string `json:"sweep"`
	// SweepKinds restricts sweep obligations to these kinds (default: all safety kinds).
	SweepKinds   []string `json:"sweep_kinds"`
	NilChecks    bool     `json:"nil_checks"`
	AllocBound   int64    `json:"alloc_bound"`
	Lemmas       []string `json:"lemmas"`
	Structural   []string `json:"structural"`
	NotCovered   []string `json:"not_covered"`
	Assumptions  []string `json:"assumptions"`
	ThoroughOnly []string `json:"thorough_only"` // obligation-name prefixes only run in the thorough tier
	NoSafety     []string `json:"no_safety"`     // functions whose safety obligations are assumed (covered by another property)
	TimeoutMs    int      `json:"timeout_ms"`    // per-obligation solver timeout of the quick tier (default 10000)
}

func loadPropConfig(id string) (*PropConfig, error) {
	data, err := os.ReadFile(filepath.Join(verifDir(), "props", id+".json"))
	if err != nil {
		return nil, err
	}
	var pc PropConfig
	if err := json.Unmarshal(data, &pc); err != nil {
		return nil, fmt.Errorf("props/%s.json: %v", id, err)
	}
	return &pc, nil
}

type dischargeOpts struct {
	timeoutMs int
	all       bool
	workdir   string
	parallel  int
}

// discharge runs the solver race on every obligation.
func discharge(fx *FnExec, obls []*Obligation, opt dischargeOpts) {
	defer func() { fx.c.noPrune = false }()
	type job struct {
		o      *Obligation
		script string
		alts   []string
		model  string
		cases  []string
	}
	var jobs []job
	c := fx.c
	rngMemo := map[*Term]bool{}
	for _, o := range obls {
		c.noPrune = o.Cover
		goal := c.Implies(o.PC, o.Goal)
		if goal.IsTrue() {
			o.Status, o.Backend = "unsat", "simplifier"
			if o.Cover {
				o.Status = "unsat"
			}
			continue
		}
		var vals []*Term
		for _, v := range o.Values {
			if !v.T.Sort.IsArr() {
				vals = append(vals, v.T)
			}
		}
		var valNames []string
		for _, v := range o.Values {
			if !v.T.Sort.IsArr() {
				valNames = append(valNames, v.Name)
			}
		}
		if isSafetyKind(o.Kind) && !mentionsRng(goal, rngMemo) {
			// relevance filter (dropping hypotheses is always sound): facts about abstract byte strings
			// cannot matter to a bounds / nil / arithmetic goal that mentions none, and they slow the
			// bit-vector search down considerably
			var keep []*Term
			for _, a := range o.Assume {
				if !mentionsRng(a, rngMemo) {
					keep = append(keep, a)
				}
			}
			o.Assume = keep
		}
		script := c.Query(o.Assume, goal, nil, opt.timeoutMs)
		modelScript, gvs := c.QueryGV(o.Assume, goal, vals, opt.timeoutMs)
		o.GVKeys = map[string]string{}
		for i, k := range gvs {
			if k != "" {
				o.GVKeys[k] = valNames[i]
			}
		}
		var alts []string
		for _, alt := range o.Alts {
			alts = append(alts, c.Query(o.Assume, c.Implies(o.PC, alt), nil, opt.timeoutMs))
		}
		if o.Cover {
			// fallback for a cover the solvers cannot decide with the quantified facts present: the same
			// query over the quantifier-free assumptions only.  sat there shows that the contract's ground
			// facts (path condition, preconditions, callee postconditions) are consistent; it is
			// reported with the back end suffixed "+ground".
			var ground []*Term
			memo := map[*Term]bool{}
			for _, a := range o.Assume {
				if !containsQuant(a, memo) {
					ground = append(ground, a)
				}
			}
			if len(ground) < len(o.Assume) {
				alts = append(alts, c.Query(ground, goal, nil, opt.timeoutMs))
			}
		}
		var cases []string
		if !o.Cover {
			cases, _ = caseQueries(fx, o, goal, vals, opt.timeoutMs)
		}
		jobs = append(jobs, job{o, script, alts, modelScript, cases})
	}
	sem := make(chan struct{}, opt.parallel)
	var wg sync.WaitGroup
	for _, j := range jobs {
		wg.Add(1)
		sem <- struct{}{}
		go func(j job) {
			defer wg.Done()
			defer func() { <-sem }()
			var caseCh chan string
			if !j.o.Cover && len(j.cases) > 0 {
				// contract clause `split E`: the case queries run beside the plain query; the obligation is
				// proved by the plain query or by ALL cases, whichever comes first
				caseCh = make(chan string, 1)
				go func() {
					be := ""
					for i, cs := range j.cases {
						rc := Solve(cs, opt.workdir, fmt.Sprintf("%s.case%d", j.o.Name, i), opt.timeoutMs, false)
						if rc.Status != "unsat" {
							caseCh <- ""
							return
						}
						be = rc.Backend
					}
					caseCh <- be + "+cases"
				}()
			}
			var r SolveResult
			if caseCh == nil {
				r = Solve(j.script, opt.workdir, j.o.Name, opt.timeoutMs, opt.all)
			} else {
				t0 := time.Now()
				mainCh := make(chan SolveResult, 1)
				go func() { mainCh <- Solve(j.script, opt.workdir, j.o.Name, opt.timeoutMs, opt.all) }()
				select {
				case r = <-mainCh:
					if r.Status != "unsat" && r.Status != "sat" {
						if be := <-caseCh; be != "" {
							r = SolveResult{Status: "unsat", Backend: be, Ms: time.Since(t0).Milliseconds()}
						}
					}
				case be := <-caseCh:
					if be != "" {
						r = SolveResult{Status: "unsat", Backend: be, Ms: time.Since(t0).Milliseconds()}
					} else {
						r = <-mainCh
					}
				}
			}
			j.o.Status, j.o.Backend, j.o.Ms, j.o.Output = r.Status, r.Backend, r.Ms, r.Output
			if r.Status == "sat" && !j.o.Cover {
				if r2 := Solve(j.model, opt.workdir, j.o.Name+".model", opt.timeoutMs, false); r2.Status == "sat" {
					j.o.Output = r2.Output
				}
			}
			if j.o.Cover && j.o.Status != "unsat" && j.o.Status != "sat" && len(j.alts) > 0 {
				if r2 := Solve(j.alts[0], opt.workdir, j.o.Name+".ground", opt.timeoutMs, false); r2.Status == "sat" {
					j.o.Status, j.o.Backend = "sat", r2.Backend+"+ground"
				}
			}
			if j.o.Status != "unsat" && !j.o.Cover {
				for i, s2 := range j.alts {
					r2 := Solve(s2, opt.workdir, fmt.Sprintf("%s.alt%d", j.o.Name, i), opt.timeoutMs, false)
					if r2.Status == "unsat" {
						j.o.Status, j.o.Backend, j.o.Output = "unsat", r2.Backend+"+witness", r2.Output
						break
					}
				}
			}
		}(j)
	}
	wg.Wait()
}

func cmdFunc(args []string) int {
	if len(args) < 2 {
		fmt.Fprintln(os.Stderr, "usage: hopvc func <pkg-pattern> <func-key> [safety]")
		return 2
	}
	eng, err := Load([]string{args[0]})
	if err != nil {
		fmt.Fprintln(os.Stderr, err)
		return 3
	}
	fn := eng.FuncByKey(args[1])
	if fn == nil {
		fmt.Fprintln(os.Stderr, "no such function:", args[1])
		var ks []string
		for k := range eng.funcs {
			if strings.Contains(k, args[1]) {
				ks = append(ks, k)
			}
		}
		sort.Strings(ks)
		fmt.Fprintln(os.Stderr, strings.Join(ks, "\n"))
		return 2
	}
	opts := ExecOpts{}
	for _, a := range args[2:] {
		if a == "safety" {
			opts.SafetyOnly = true
		}
		if a == "nil" {
			opts.NilChecks = true
		}
	}
	trace("loaded")
	t0 := time.Now()
	rep := eng.VerifyFunc(fn, opts)
	trace("generated")
	fmt.Printf("generated %d obligations in %v\n", len(rep.Obligations), time.Since(t0))
	if rep.OutOfSubset != "" {
		fmt.Println("OUT OF SUBSET:", rep.OutOfSubset)
	}
	tmo := 10000
	if v, err := strconv.Atoi(os.Getenv("HOPVC_TIMEOUT_MS")); err == nil && v > 0 {
		tmo = v
	}
	discharge(rep.fx, rep.Obligations, dischargeOpts{timeoutMs: tmo, workdir: "/tmp/hopvc-work/func", parallel: 6})
	trace("discharged")
	for _, o := range rep.Obligations {
		ok := o.Status == "unsat"
		if o.Cover {
			ok = o.Status == "sat"
		}
		mark := "ok  "
		if !ok {
			mark = "FAIL"
		}
		fmt.Printf("%s %-70s %-8s %-10s %5dms %s  %s\n", mark, o.Name, o.Status, o.Backend, o.Ms, o.Pos, o.Desc)
		if !ok && o.Status == "sat" {
			m := namedModel(o, parseModel(o.Output))
			var ks []string
			for k := range m {
				ks = append(ks, k)
			}
			sort.Strings(ks)
			for i, k := range ks {
				if i >= modelLines() {
					fmt.Printf("       … %d more\n", len(ks)-i)
					break
				}
				fmt.Printf("       %s = %s\n", k, m[k])
			}
		}
	}
	for _, n := range rep.Notes {
		fmt.Println("note:", n)
	}
	for _, n := range rep.Dropped {
		fmt.Println("dropped:", n)
	}
	for _, n := range rep.Bounded {
		fmt.Println("bounded:", n)
	}
	for _, so := range eng.frameObligations(fn, eng.db.Funcs[args[1]]) {
		if !so.OK {
			fmt.Println("FAIL", so.Name, so.Detail)
		} else {
			fmt.Println("ok  ", so.Name)
		}
	}
	fmt.Println("inlined:", rep.Inlined, "used contracts:", rep.Used, "unannotated loops:", rep.Unannotated)
	return 0
}

func init() {
	if os.Getenv("HOPVC_TRACE") != "" {
		traceStart = time.Now()
	}
}

var traceStart time.Time

func trace(format string, a ...interface{}) {
	if !traceStart.IsZero() {
		fmt.Fprintf(os.Stderr, "[%6dms] %s\n", time.Since(traceStart).Milliseconds(), fmt.Sprintf(format, a...))
	}
}

func modelLines() int {
	if v, err := strconv.Atoi(os.Getenv("HOPVC_MODEL_LINES")); err == nil && v > 0 {
		return v
	}
	return 14
}

func containsQuant(t *Term, memo map[*Term]bool) bool {
	if v, ok := memo[t]; ok {
		return v
	}
	r := t.Op == "forall" || t.Op == "exists"
	if !r {
		for _, a := range t.Args {
			if containsQuant(a, memo) {
				r = true
				break
			}
		}
	}
	memo[t] = r
	return r
}

func mentionsRng(t *Term, memo map[*Term]bool) bool {
	if v, ok := memo[t]; ok {
		return v
	}
	r := t.Op == "app" && (t.Name == "rng" || strings.HasPrefix(t.Name, "spec."))
	if !r {
		for _, a := range t.Args {
			if mentionsRng(a, memo) {
				r = true
				break
			}
		}
	}
	memo[t] = r
	return r
}

// caseQueries builds, for a function whose contract has `split E` clauses, one query per case (E / !E
// combinations); an obligation the solvers leave undecided holds if it is proved in every case.
func caseQueries(fx *FnExec, o *Obligation, goal *Term, vals []*Term, timeoutMs int) (scripts, models []string) {
	if len(fx.splits) == 0 {
		return nil, nil
	}
	c := fx.c
	type cse struct {
		cond *Term
		sub  map[*Term]*Term
		dis  [][2]*Term // pairs known to differ in this case
	}
	cases := []cse{{c.True(), nil, nil}}
	for _, sp := range fx.splits {
		var nx []cse
		for _, cs := range cases {
			// in the positive case of an equality between a symbol and a term the symbol is replaced by the
			// term (and everything re-simplified): select-over-store on nested heaps then reduces syntactically
			sub := map[*Term]*Term{}
			for k, v := range cs.sub {
				sub[k] = v
			}
			if sp.Op == "=" && len(sp.Args) == 2 {
				a, b := sp.Args[0], sp.Args[1]
				if len(a.Args) == 0 && a.Op != "bv" && a.Op != "true" && a.Op != "false" {
					sub[a] = b
				} else if len(b.Args) == 0 && b.Op != "bv" && b.Op != "true" && b.Op != "false" {
					sub[b] = a
				}
			}
			sub[sp] = c.True()
			nsub := map[*Term]*Term{sp: c.False()}
			for k, v := range cs.sub {
				nsub[k] = v
			}
			var ndis [][2]*Term
			ndis = append(ndis, cs.dis...)
			if sp.Op == "=" && len(sp.Args) == 2 {
				ndis = append(ndis, [2]*Term{sp.Args[0], sp.Args[1]})
			}
			nx = append(nx, cse{c.And(cs.cond, sp), sub, cs.dis}, cse{c.And(cs.cond, c.Not(sp)), nsub, ndis})
		}
		cases = nx
	}
	for _, cs := range cases {
		as := append([]*Term{}, o.Assume...)
		g := goal
		c.distinct = map[[2]*Term]bool{}
		for _, d := range cs.dis {
			c.distinct[d] = true
		}
		if len(cs.sub) > 0 {
			for i := range as {
				as[i] = c.Subst(as[i], cs.sub)
			}
			g = c.Subst(g, cs.sub)
		}
		c.distinct = nil
		as = append(as, cs.cond)
		scripts = append(scripts, c.Query(as, g, nil, timeoutMs))
		ms, _ := c.QueryGV(as, g, vals, timeoutMs)
		models = append(models, ms)
	}
	return
}
