module hop.computer/hop

go 1.24
