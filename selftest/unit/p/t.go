package p

import "time"

type B struct {
	E time.Time
	N int
}

type S2 struct{ acts []B }

var TimeNow = time.Now

func (s *S2) C() (int, error) {
	for i, ag := range s.acts {
		now := TimeNow()
		if now.Before(ag.E) {
			return i, nil
		}
	}
	return 0, errX
}

var errX error
