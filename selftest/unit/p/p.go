package p

type K [4]byte

func F(a []K, k *K) []K {
	a = append(a, *k)
	return a
}

func G(a []byte, k byte) []byte {
	a = append(a, k)
	return a
}
