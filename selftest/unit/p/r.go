package p

import "slices"

type A struct {
	T int
	S string
}

type Sess struct {
	acts []A
}

func now() int

func (s *Sess) Check(cmd string) (int, error) {
	for i, ag := range s.acts {
		if now() < ag.T {
			if ag.S == cmd {
				s.acts = slices.Delete(s.acts, i, i+1)
				return ag.T, nil
			}
		}
	}
	return 0, nil
}
