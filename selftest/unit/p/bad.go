package p

// must-fail cases: each contract below is WRONG and the engine has to refute it

func BadAppend(a []byte, k byte) []byte { return append(a, k) }

func BadIndex(a []byte, i int) byte {
	if i <= len(a) {
		return a[i]
	}
	return 0
}

func BadLoop(a []int) int {
	s := 0
	for i := 0; i < len(a); i++ {
		s += a[i]
	}
	return s
}
