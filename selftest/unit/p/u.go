package p

type GG struct {
	T   int
	S   string
	Key [4]byte
}

func AddG(a []GG, g GG) []GG {
	return append(a, g)
}
