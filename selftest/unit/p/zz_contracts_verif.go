//go:build verif

package p

//@ func F(a []K, k *K) (r []K)
//@   ensures len(r) == len(a) + 1
//@   ensures r[len(a)] == *k
//@   ensures forall i int :: 0 <= i && i < len(a) ==> r[i] == old(a[i])

//@ func G(a []byte, k byte) (r []byte)
//@   ensures len(r) == len(a) + 1
//@   ensures r[len(a)] == k
//@   ensures forall i int :: 0 <= i && i < len(a) ==> r[i] == old(a[i])

//@ spec wf(kb Bytes) bool
//@ func parse(line string) (k *K, err error)
//@   assume stub
//@   pure
//@   ensures err == nil <==> k != nil
//@   ensures err == nil ==> wf(bytes(*k))
//@ func scan() (b bool)
//@   assume stub
//@   pure
//@ func text() (s string)
//@   assume stub
//@   pure
//@ func P() (authorized []K, err error)
//@   ensures err == nil ==> (forall i int :: 0 <= i && i < len(authorized) ==> wf(bytes(authorized[i])))
//@   loop 1
//@     invariant forall i int :: 0 <= i && i < len(authorized) ==> wf(bytes(authorized[i]))
//@     invariant err == nil

//@ func now() (t int)
//@   assume stub
//@   pure

//@ func p.TimeNow() (t time.Time)
//@   assume clock
//@   pure
//@ func (s *S2) C() (r int, err error)
//@   ensures err == nil ==> (exists k int :: 0 <= k && k < old(len(s.acts)) && before(resultof(p.TimeNow, t), old(s.acts[k].E)))

//@ func AddG(a []GG, g GG) (r []GG)
//@   ensures len(r) == len(a) + 1
//@   ensures r[len(a)].T == g.T && r[len(a)].Key == g.Key && r[len(a)].S == g.S
//@   ensures forall i int :: 0 <= i && i < len(a) ==> same(r[i], old(a[i]))

// ---- must-fail
//@ func BadAppend(a []byte, k byte) (r []byte)
//@   ensures len(r) == len(a)
//@ func BadIndex(a []byte, i int) (r byte)
//@ func BadLoop(a []int) (r int)
//@   ensures r >= 0
//@   loop 1
//@     invariant s >= 0

// ---- frame scan
//@ func SetB(t *Two)
//@   modifies t.A
//@ func SetPA(t *Two)
//@   modifies *t
//@ func SetViaCallee(t *Two)
//@   modifies t.B
