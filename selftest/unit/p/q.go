package p

func parse(line string) (*K, error)
func scan() bool
func text() string

func P() (authorized []K, err error) {
	for scan() {
		line := text()
		if line == "" {
			continue
		}
		k, err := parse(line)
		if err != nil {
			return nil, err
		}
		authorized = append(authorized, *k)
	}
	return
}
