package p

type Two struct {
	A, B int
	P    *Two
}

func SetB(t *Two) { t.B = 1 }

func SetPA(t *Two) { t.P.A = 1 }

func SetViaCallee(t *Two) { SetB(t) }
