#!/usr/bin/env python3
# usage: tools_claim.py <id> <level_text> <level_note> [technique]   — moves a property from not_applicable to checks[]
#        tools_claim.py --na <id> <reason>                            — sets the not_applicable reason
import json, sys
m = json.load(open('/verif/MANIFEST.json'))
if sys.argv[1] == '--na':
    pid, reason = sys.argv[2], sys.argv[3]
    m['checks'] = [c for c in m['checks'] if c['property_id'] != pid]
    m['not_applicable'] = [c for c in m.get('not_applicable', []) if c['property_id'] != pid] + [{"property_id": pid, "reason": reason}]
else:
    pid, text, note = sys.argv[1], sys.argv[2], sys.argv[3]
    tech = sys.argv[4] if len(sys.argv) > 4 else "deductive verification: contracts on the real Go code, VC generation over go/ssa, SMT (z3/cvc5)"
    m['not_applicable'] = [c for c in m.get('not_applicable', []) if c['property_id'] != pid]
    m['checks'] = [c for c in m['checks'] if c['property_id'] != pid] + [{
        "property_id": pid,
        "quick_cmd": "./bin/hopvc check %s --tier quick" % pid,
        "thorough_cmd": "./bin/hopvc check %s --tier thorough" % pid,
        "evidence_file": "evidence/%s.json" % pid,
        "engine": "hopvc",
        "level_claimed": {"category": "proof", "text": text, "design_ref": "DESIGN.md section 5, " + pid},
        "level_note": note,
        "technique": tech}]
m['checks'].sort(key=lambda c: c['property_id'])
m['not_applicable'].sort(key=lambda c: c['property_id'])
for e in m.get('engines', []):
    e['serves_properties'] = [c['property_id'] for c in m['checks']]
json.dump(m, open('/verif/MANIFEST.json', 'w'), indent=1)
